"""C15 — Monte-Carlo simulations are reproducible with independent repetitions.

oracle(ctx)          real simulations (1 qubit, n_rep 2..4, tiny sample sizes; linear / projected linear / loss minimisation):
                       * both entry points run twice and with different worker counts at each of the four parallel levels:
                         true / tester objects, every empirical distribution and every estimate compared bit for bit;
                       * re-estimation from the stored empirical distributions reproduces the stored estimates;
                       * repetitions of one run are not copies of one another (integer data seed in particular);
                       * depolarising generation = (1-p)·X + p·X_mixed and physical for p in [0,1]; random-Lindbladian
                         generation physical and a function of its generator;
                       * the built-in physicality check fails exactly when a stored estimate violates an enforced constraint
                         beyond the documented thresholds (independent numpy verdicts; injected violating / harmless estimates).
correspondence(ctx)  QModel.C15 vs the real code: verdict wiring of execute_physicality_violation_check on synthetic results,
                     thresholds, depolarising channel on vectors / HS matrices, the seed plumbing of the repetition loop
                     (equality pattern of repetitions for int / Generator / None), state threading of a shared estimator.
"""
import shim  # noqa: F401
import contextlib
import copy
import io
import os
import shutil
import tempfile
import numpy as np

_WORKER = os.path.join(os.path.dirname(os.path.abspath(__file__)), "c15_worker")
if _WORKER not in os.environ.get("PYTHONPATH", "").split(os.pathsep):
    # joblib/loky workers are fresh interpreters: they need the scipy.linalg.kron import shim too
    os.environ["PYTHONPATH"] = _WORKER + os.pathsep + os.environ.get("PYTHONPATH", "")
os.environ.setdefault("QUARA_REPO", shim.REPO)

from common import Driver, q, qlist, unqlist, allclose, close  # noqa: E402
import qobj  # noqa: E402
from quara.objects.composite_system import CompositeSystem  # noqa: E402
from quara.objects.elemental_system import ElementalSystem  # noqa: E402
from quara.objects import matrix_basis  # noqa: E402
from quara.objects.state import State  # noqa: E402
from quara.objects.povm import Povm  # noqa: E402
from quara.objects.gate import Gate, get_depolarizing_channel  # noqa: E402
from quara.objects.mprocess import MProcess  # noqa: E402
from quara.objects.operators import compose_qoperations  # noqa: E402
from quara.objects.qoperation_typical import generate_qoperation  # noqa: E402
from quara.data_analysis import physicality_violation_check as pvc  # noqa: E402
from quara.simulation import standard_qtomography_simulation as sim  # noqa: E402
from quara.simulation.standard_qtomography_simulation import (  # noqa: E402
    EstimatorTestSetting, NoiseSetting, SimulationResult, StandardQTomographySimulationSetting)
from quara.simulation.standard_qtomography_simulation_flow import execute_simulation_test_settings  # noqa: E402
from quara.simulation.standard_qtomography_simulation_check import StandardQTomographySimulationCheck  # noqa: E402
from quara.simulation.depolarized_qoperation_generation_setting import DepolarizedQOperationGenerationSetting  # noqa: E402
from quara.simulation.random_effective_lindbladian_generation_setting import (  # noqa: E402
    RandomEffectiveLindbladianGenerationSetting)
from quara.protocol.qtomography.standard.standard_qst import StandardQst  # noqa: E402
from quara.protocol.qtomography.standard.linear_estimator import LinearEstimator  # noqa: E402
from quara.protocol.qtomography.standard.projected_linear_estimator import ProjectedLinearEstimator  # noqa: E402
from quara.protocol.qtomography.standard.loss_minimization_estimator import LossMinimizationEstimator  # noqa: E402
from quara.protocol.qtomography.standard.standard_qtomography_estimator import (  # noqa: E402
    StandardQTomographyEstimationResult)
from quara.loss_function.standard_qtomography_based_weighted_probability_based_squared_error import (  # noqa: E402
    StandardQTomographyBasedWeightedProbabilityBasedSquaredError as FWSE,
    StandardQTomographyBasedWeightedProbabilityBasedSquaredErrorOption as FWSEO)
from quara.loss_function.weighted_probability_based_squared_error import (  # noqa: E402
    WeightedProbabilityBasedSquaredError as WSE, WeightedProbabilityBasedSquaredErrorOption as WSEO)
from quara.minimization_algorithm.projected_gradient_descent_backtracking import (  # noqa: E402
    ProjectedGradientDescentBacktracking as PGDB, ProjectedGradientDescentBacktrackingOption as PGDBO)

LEVELS = ("per_sample_unit", "per_data_generation", "per_estimator_unit", "per_estimator_execution")
ONLY_PHYS = {"consistency": False, "mse_of_estimators": False, "mse_of_empi_dists": False, "physicality_violation": True}



LEAN_EXTRA_SOURCES = ("C15Gen.lean",)
LEAN_EXTRA_TARGETS = ("QGen.C15",)


def translate(ctx):
    """regenerate lean/QGen/C15.lean from /repo's sources (c15_translate.py); QProps/C15.lean proves the discipline the model
    assumes about the regenerated tables"""
    import c15_translate
    return c15_translate.translate()


@contextlib.contextmanager
def quiet():
    """silence the library's progress output, including what joblib workers write to the inherited descriptors"""
    import sys
    sys.stdout.flush(); sys.stderr.flush()
    saved = (os.dup(1), os.dup(2))
    null = os.open(os.devnull, os.O_WRONLY)
    buf = io.StringIO()
    try:
        os.dup2(null, 1); os.dup2(null, 2)
        with contextlib.redirect_stdout(buf), contextlib.redirect_stderr(buf):
            yield
    finally:
        os.dup2(saved[0], 1); os.dup2(saved[1], 2)
        for fd in (null,) + saved:
            os.close(fd)


def csys1():
    return CompositeSystem([ElementalSystem(0, matrix_basis.get_normalized_pauli_basis())])


def pgdb_opt(eq=True, ineq=True):
    return PGDBO(on_algo_eq_constraint=eq, on_algo_ineq_constraint=ineq,
                 mode_stopping_criterion_gradient_descent="sum_absolute_difference_variable",
                 num_history_stopping_criterion_gradient_descent=1, max_iteration_optimization=40)


# ----------------------------------------------------------------------------- building simulations
def make_setting(cfg):
    """EstimatorTestSetting from a plain description (so that a replay can rebuild it)"""
    c_sys = csys1()
    noise = cfg["noise"]

    def ns(base):
        if noise["method"] is None:
            return NoiseSetting(qoperation_base=tuple(base), method=None, para={})
        return NoiseSetting(qoperation_base=tuple(base), method=noise["method"], para=dict(noise["para"]))
    cases = cfg["cases"]
    ests, algos, losses = [], [], []
    shared_opts = {}
    for c in cases:
        if c["est"] == "linear":
            ests.append(LinearEstimator()); algos.append((None, None)); losses.append((None, None))
        elif c["est"] == "plinear":
            ests.append(ProjectedLinearEstimator(mode_proj_order=c.get("order", "eq_ineq")))
            algos.append((None, None)); losses.append((None, None))
        else:
            ests.append(LossMinimizationEstimator())
            # cases with the same "share" key use ONE option object (options are plain configuration: sharing is harmless)
            key = c.get("share")
            if key is not None and key in shared_opts:
                opt = shared_opts[key]
            else:
                opt = pgdb_opt(c.get("eq", True), c.get("ineq", True))
                if key is not None:
                    shared_opts[key] = opt
            algos.append((PGDB(), opt))
            if c.get("loss", "fwse") == "fwse":
                losses.append((FWSE(), FWSEO(c.get("mode", "identity"))))
            else:
                losses.append((WSE(), WSEO(c.get("mode", "identity"))))
    return EstimatorTestSetting(
        true_object=ns(cfg["true"]), tester_objects=[ns(t) for t in cfg["testers"]],
        seed_qoperation=cfg["seed_q"], seed_data=cfg["seed_data"], n_sample=cfg["n_sample"], n_rep=cfg["n_rep"],
        num_data=list(cfg["num_data"]), schedules="all", case_names=[c["name"] for c in cases], estimators=ests,
        eps_proj_physical_list=[cfg.get("eps_proj", 1e-5)] * len(cases),
        eps_truncate_imaginary_part_list=[cfg.get("eps_trunc", 1e-5)] * len(cases),
        algo_list=algos, loss_list=losses, parametrizations=[c.get("para", True) for c in cases], c_sys=c_sys)


def run_flow(cfg, parallel_mode=None):
    d = tempfile.mkdtemp(prefix="c15_")
    try:
        with quiet():
            res = execute_simulation_test_settings([make_setting(cfg)], d, pdf_mode="none",
                                                   exec_sim_check=dict(ONLY_PHYS), parallel_mode=parallel_mode,
                                                   is_computation_time_required=cfg.get("timing", True))
    finally:
        shutil.rmtree(d, ignore_errors=True)
    return res


def arrays_of(o):
    if isinstance(o, State):
        return [o.vec]
    if isinstance(o, Povm):
        return list(o.vecs)
    if isinstance(o, Gate):
        return [o.hs]
    if isinstance(o, MProcess):
        return list(o.hss)
    raise TypeError(type(o))


def fingerprint(results):
    """everything the property says must be reproduced: objects, empirical distributions, estimates"""
    fp = []
    for r in results:
        s = r.simulation_setting
        fp.append({
            "name": s.name,
            "true": [np.array(a) for a in arrays_of(s.true_object)],
            "testers": [np.array(a) for t in s.tester_objects for a in arrays_of(t)],
            "empi": [[[(int(n), np.array(p)) for n, p in dists] for dists in seq] for seq in r.empi_dists_sequences],
            "est": [[np.array(v) for v in er.estimated_var_sequence] for er in r.estimation_results],
            "check": bool(r.check_result["total_result"]),
        })
    return fp


def diff_fp(a, b):
    """components in which two fingerprints differ (bit-level); estimates are reported per estimator case"""
    out = []
    if len(a) != len(b):
        return ["number-of-results"]
    for x, y in zip(a, b):
        for key in ("true", "testers"):
            if len(x[key]) != len(y[key]) or any(not np.array_equal(u, v) for u, v in zip(x[key], y[key])):
                out.append("true-object" if key == "true" else "tester-objects")
        bad = len(x["empi"]) != len(y["empi"])
        for sa, sb in zip(x["empi"], y["empi"]):
            for la, lb in zip(sa, sb):
                for (na, pa), (nb, pb) in zip(la, lb):
                    bad |= na != nb or not np.array_equal(pa, pb)
        if bad:
            out.append("empirical-distributions")
        bad = False
        for ea, eb in zip(x["est"], y["est"]):
            bad |= len(ea) != len(eb) or any(not np.array_equal(u, v) for u, v in zip(ea, eb))
        if bad:
            out.append(f"estimates/{x['name']}")
        elif x["check"] != y["check"]:
            out.append(f"check-result/{x['name']}")
    return sorted(set(out))


def reps_identical(empi):
    """pairs of repetitions of one run whose empirical distributions coincide completely"""
    out = []
    for i in range(len(empi)):
        for j in range(i + 1, len(empi)):
            same = all(na == nb and np.array_equal(pa, pb) for la, lb in zip(empi[i], empi[j]) for (na, pa), (nb, pb) in zip(la, lb))
            if same:
                out.append((i, j))
    return out


def base_cfg(g, n_rep, num_data, cases, noise=None, true=("state", "z0"), testers=None, n_sample=1):
    return {"true": list(true), "testers": [list(t) for t in (testers or [("povm", "x"), ("povm", "y"), ("povm", "z")])],
            "noise": noise or {"method": "depolarized", "para": {"error_rate": float(np.round(g.uniform(0.02, 0.3), 3))}},
            "seed_q": int(g.integers(1, 10 ** 6)), "seed_data": int(g.integers(1, 10 ** 6)), "n_sample": n_sample,
            "n_rep": n_rep, "num_data": list(num_data), "cases": cases}


CASES_BASIC = [{"name": "linear", "est": "linear", "para": True},
               {"name": "linear-nopara", "est": "linear", "para": False},
               {"name": "plinear", "est": "plinear", "para": True},
               {"name": "loss-fwse-identity", "est": "loss", "loss": "fwse", "mode": "identity", "para": True}]


# ----------------------------------------------------------------------------- independent verdicts on estimates
def ref_verdict(o, eq_eps, ineq_eps):
    """(equality constraint ok, inequality constraint ok) by numpy formulas on the matrix representation"""
    B = qobj.basis_mats(o.composite_system)
    d = o.dim
    if isinstance(o, State):
        rho = sum(v * b for v, b in zip(o.vec, B))
        return abs(np.trace(rho).real - 1) <= eq_eps, np.linalg.eigvalsh((rho + rho.conj().T) / 2).min() >= -ineq_eps
    if isinstance(o, Povm):
        ms = [sum(v * b for v, b in zip(vec, B)) for vec in o.vecs]
        eq = np.abs(sum(ms) - np.eye(d)).max() <= eq_eps
        return eq, min(np.linalg.eigvalsh((m + m.conj().T) / 2).min() for m in ms) >= -ineq_eps
    if isinstance(o, Gate):
        eq = np.abs(o.hs[0] - np.eye(d * d)[0]).max() <= eq_eps
        choi = sum(o.hs[a, b] * np.kron(B[a], B[b].conj()) for a in range(d * d) for b in range(d * d))
        return eq, np.linalg.eigvalsh((choi + choi.conj().T) / 2).min() >= -ineq_eps
    raise TypeError(type(o))


def margin_ok(o, eq_eps, ineq_eps):
    """the estimate is not within a factor 10 of a threshold (so that rounding cannot decide a verdict)"""
    a = ref_verdict(o, eq_eps * 10, ineq_eps * 10)
    b = ref_verdict(o, eq_eps / 10, ineq_eps / 10)
    return a == b


def expected_check(kind, para, flags, verdicts):
    """what the property says the built-in check must return; verdicts: list over all stored estimates of (eq, ineq)"""
    if kind == "plinear":
        enforced = (True, True)
    elif kind == "linear":
        enforced = (para, False)
    elif kind == "loss":
        enforced = flags if flags is not None else (False, False)
    else:
        enforced = (False, False)
    return not any((enforced[0] and not e) or (enforced[1] and not i) for e, i in verdicts)


def est_kind(est):
    return {LinearEstimator: "linear", ProjectedLinearEstimator: "plinear", LossMinimizationEstimator: "loss"}.get(type(est), "other")


def check_clause(ctx, r, tag, replay):
    """built-in physicality check of a SimulationResult vs the independent verdicts"""
    s = r.simulation_setting
    kind = est_kind(s.estimator)
    qos = [qo for er in r.estimation_results for qo in er.estimated_qoperation_sequence]
    if isinstance(qos[0], MProcess):
        return
    para = bool(qos[0].on_para_eq_constraint)
    eq_eps = 1e-13 if para else 1e-5
    if not all(margin_ok(o, max(eq_eps, 1e-12), 1e-5) for o in qos):
        ctx.count("check-clause skipped: estimate within 10x of a threshold")
        return
    verdicts = [ref_verdict(o, max(eq_eps, 1e-12), 1e-5) for o in qos]
    flags = None
    if kind == "loss" and s.algo_option is not None:
        flags = (bool(s.algo_option.on_algo_eq_constraint), bool(s.algo_option.on_algo_ineq_constraint))
    want = expected_check(kind, para, flags, verdicts)
    with quiet():
        got = StandardQTomographySimulationCheck(r).execute_physicality_violation_check(show_detail=False)
    ctx.case(("check", tag, kind, para, flags, tuple(verdicts)), nontrivial=not all(e and i for e, i in verdicts),
             sample={"clause": "physicality-check", "estimator": kind, "para": para, "verdicts": verdicts[:4], "check": bool(got)})
    ctx.count(f"check clause {kind} para={para} violating={not want}")
    if bool(got) != want:
        ctx.violate(f"C15/physicality-check/{kind}/para={para}/{'missed-violation' if got else 'false-alarm'}",
                    f"built-in check returned {got}, stored estimates have (eq ok, ineq ok) = {verdicts}", replay)


def with_injected(r, rep, k, newvar):
    """copy of a SimulationResult in which estimate (rep, k) is replaced"""
    ers = []
    for i, er in enumerate(r.estimation_results):
        seq = [np.array(v, copy=True) for v in er.estimated_var_sequence]
        if i == rep:
            seq[k] = np.array(newvar, dtype=np.float64)
        ers.append(StandardQTomographyEstimationResult(seq, er.computation_times, er._template_qoperation))
    out = SimulationResult(estimation_results=ers, empi_dists_sequences=r.empi_dists_sequences, qtomography=r.qtomography)
    out.simulation_setting = r.simulation_setting
    out.result_index = getattr(r, "result_index", None)
    return out


def eq_defect_var(true_obj, delta):
    """variables (on_para_eq_constraint=False) of a clearly physical gate / POVM near `true_obj`, with an equality
    (trace-preservation / completeness) defect of size delta"""
    c_sys = true_obj.composite_system
    dp = get_depolarizing_channel(0.3, c_sys)
    if isinstance(true_obj, Gate):
        hs = np.array(compose_qoperations(dp, true_obj).hs, copy=True)
        hs[0, 1] += delta
        return hs.flatten()
    vecs = [np.array(v, copy=True) for v in compose_qoperations(true_obj, dp).vecs]
    vecs[0][0] += delta * np.sqrt(true_obj.dim)     # sum of the elements = (1 + delta) * identity
    return np.hstack(vecs)


def state_var(c_sys, rho, para):
    v = qobj.vec_of(c_sys, rho)
    return v[1:] if para else v


# ----------------------------------------------------------------------------- oracle
def oracle(ctx, volume=1):
    g = ctx.npgen(f"oracle{volume}")
    flow_clauses(ctx, g, volume)
    single_setting_clauses(ctx, g, volume)
    global_stream_clause(ctx, g, volume)
    same_objects_clause(ctx, g, volume)
    unknown_types_clause(ctx, g, volume)
    noise_clauses(ctx, g, volume)
    seed_clause(ctx, g, volume)
    ctx.rule = ("one case = one real simulation run compared with its repetition / another worker configuration / its "
                "re-estimation, one generated noisy object, or one evaluation of the built-in physicality check; "
                "non-trivial = more than one repetition and sample size, or a violating estimate; distinct by configuration")
    ctx.partial += [
        {"theorem": "partition_independent_partial / reest_reproduces_partial",
         "missing": "tasks / estimates whose result depends on the state of a shared loss / algorithm object (hypothesis of the theorems; counter-examples partition_independent_fails and the example after reest_reproduces_partial)"},
        {"theorem": "depol_convex_physical_partial",
         "missing": "equality constraints of all four object types: depol_preserves_equality_constraint; positivity: convexity for states on abstract matrices only; physicality of depolarised gates / POVMs / measurement processes and of random-Lindbladian objects is observed by the oracle (is_physical of every generated object), not proved"},
        {"theorem": "reps_distinct_streams",
         "missing": "the generator not repeating within n segments from the actual start state is assumed (MT19937 quality)"},
        {"theorem": "flow_streams_distinct", "missing": "distinctness of the generators seeded with the n spawned children is assumed (observed on numpy by seed_clause)"},
    ]


def flow_clauses(ctx, g, volume):
    nconf = (5 if ctx.quick else 10) * volume
    for ci in range(nconf):
        n_rep = int(g.integers(2, 5))
        num_data = [int(g.choice([10, 20])), int(g.choice([50, 100]))]
        # the loss cases of a configuration share one option object across both parametrisations; a projected linear case
        # with the non-default projection order and without the equality constraint in the parametrisation
        cases = list(CASES_BASIC[:3]) + [dict(CASES_BASIC[3], share="s1"),
                                         {"name": "loss-fwse-identity-nopara", "est": "loss", "loss": "fwse", "mode": "identity",
                                          "para": False, "share": "s1"},
                                         {"name": "plinear-ineq_eq-nopara", "est": "plinear", "order": "ineq_eq", "para": False}]
        if ci % 2 == 1:
            cases = [CASES_BASIC[0], CASES_BASIC[2],
                     {"name": "loss-wse-invcov", "est": "loss", "loss": "wse", "mode": "inverse_sample_covariance", "para": True},
                     {"name": "loss-fwse-invcov", "est": "loss", "loss": "fwse", "mode": "inverse_sample_covariance", "para": True},
                     {"name": "loss-eq-only", "est": "loss", "loss": "fwse", "mode": "identity", "para": False, "eq": True, "ineq": False},
                     {"name": "plinear-ineq_eq-nopara", "est": "plinear", "order": "ineq_eq", "para": False}]
        true = [("state", "z0"), ("state", "a"), ("state", "x1")][ci % 3]
        testers = None
        st_testers = [("state", "x0"), ("state", "y0"), ("state", "z0"), ("state", "z1")]
        pv_testers = [("povm", "x"), ("povm", "y"), ("povm", "z")]
        nopara = {"name": "loss-nopara-eq", "est": "loss", "loss": "fwse", "mode": "identity", "para": False,
                  "eq": True, "ineq": True, "share": "s1"}
        light = [CASES_BASIC[0], CASES_BASIC[2], dict(CASES_BASIC[3], share="s1"), nopara]
        if ci % 10 == 3:        # a POVM as the unknown
            true, testers, cases = ("povm", "z"), st_testers, light
        elif ci % 10 in (4, 6):      # a gate as the unknown
            true, testers, cases = ("gate", "hadamard"), st_testers + pv_testers, [CASES_BASIC[0], nopara]
        elif ci % 10 == 8:      # a measurement process as the unknown
            true, testers, cases = ("mprocess", "z-type1"), st_testers + pv_testers, light[:2]
        n_sample = 2 if (ci % 3 == 2 or (ci % 2 == 0 and not ctx.quick)) else 1
        cfg = base_cfg(g, n_rep, num_data, cases, true=true, testers=testers, n_sample=n_sample)
        # non-default, unequal tolerances of the cases; every other configuration runs without timing
        cfg["eps_proj"], cfg["eps_trunc"] = [(1e-4, 1e-9), (1e-7, 1e-5), (1e-5, 1e-5)][ci % 3]
        cfg["timing"] = ci % 2 == 1
        if ci % 3 == 2:
            cfg["noise"] = {"method": "random_effective_lindbladian",
                            "para": {"lindbladian_base": "identity", "strength_h_part": 0.1, "strength_k_part": 0.1}}
        rep = {"kind": "flow", "cfg": cfg}
        try:
            base = run_flow(cfg)
        except Exception as e:  # noqa
            ctx.violate("C15/flow/raises", f"{type(e).__name__}: {e}", rep); continue
        fp0 = fingerprint(base)
        ctx.case(("flow", ci, "base"), sample={"clause": "flow", "n_rep": n_rep, "num_data": num_data, "cases": [c["name"] for c in cases]})
        ctx.count(f"flow configs noise={cfg['noise']['method']}")
        # (1) the same run again
        ctx.case(("flow", ci, "again"))
        for d in diff_fp(fp0, fingerprint(run_flow(cfg))):
            ctx.violate(f"C15/flow/rerun/{d}", f"the same settings and seeds gave different {d}", rep)
        # (2) different degrees of parallelism at each level
        counts = ([2] if ci % 3 == 2 or ci % 10 in (3, 4, 6, 8) else [2, 4]) if ctx.quick else [2, 3, 4]
        for level in (LEVELS if not (ctx.quick and ci % 10 == 4) else LEVELS[3:]):
            for nj in counts:
                pm = {level: nj}
                try:
                    fp = fingerprint(run_flow(cfg, pm))
                except Exception as e:  # noqa
                    ctx.violate(f"C15/flow/parallel/{level}/raises", f"n_jobs={nj}: {type(e).__name__}: {e}", dict(rep, parallel=pm)); continue
                ctx.case(("flow", ci, level, nj))
                ctx.count(f"parallel runs {level}")
                for d in diff_fp(fp0, fp):
                    ctx.violate(f"C15/flow/parallel/{level}/{d}", f"{level}={nj} changed {d} w.r.t. the serial run", dict(rep, parallel=pm))
        # (3) repetitions are not copies of one another
        for r, f in zip(base, fp0):
            dup = reps_identical(f["empi"])
            if dup:
                ctx.violate("C15/flow/repetitions-identical", f"repetitions {dup} of case {f['name']} have identical empirical distributions", rep)
                break
        # (4) re-estimation from the stored empirical distributions
        ts = make_setting(cfg)
        for r, f in zip(base, fp0):
            try:
                with quiet():
                    again = sim.re_estimate_sequence(ts, r)
            except Exception as e:  # noqa
                ctx.violate("C15/re-estimate/raises", f"{type(e).__name__}: {e}", rep); continue
            same = all(len(a.estimated_var_sequence) == len(vs) and all(np.array_equal(x, y) for x, y in zip(a.estimated_var_sequence, vs))
                       for a, vs in zip(again, f["est"]))
            ctx.case(("reest", ci, f["name"]))
            if not same:
                ctx.violate(f"C15/re-estimate/estimates/{est_kind(r.simulation_setting.estimator)}",
                            f"re-estimation of case {f['name']} from the stored empirical distributions differs from the stored estimates", rep)
        # (5) built-in physicality check vs independent verdicts, as stored and with injected estimates
        c_sys = base[0].simulation_setting.true_object.composite_system
        for r in base:
            check_clause(ctx, r, f"stored{ci}", dict(rep, clause="check"))
            tobj = r.simulation_setting.true_object
            if isinstance(tobj, (Gate, Povm)):
                # equality defects between / beyond the two documented thresholds (only meaningful without the
                # equality constraint in the parametrisation)
                para0 = bool(r.estimation_results[0].estimated_qoperation.on_para_eq_constraint)
                if not para0:
                    for label, delta in (("eq-defect-1e-7", 1e-7), ("eq-defect-1e-3", 1e-3), ("harmless", 0.0)):
                        rr = r
                        for i in range(len(r.estimation_results)):
                            for k in range(len(r.estimation_results[i].estimated_var_sequence)):
                                rr = with_injected(rr, i, k, eq_defect_var(tobj, 0.0))
                        i = int(g.integers(0, len(r.estimation_results)))
                        k = int(g.integers(0, len(cfg["num_data"])))
                        rr = with_injected(rr, i, k, eq_defect_var(tobj, delta))
                        check_clause(ctx, rr, f"inject{ci}-{label}", dict(rep, clause="check-inject", label=label))
            if not isinstance(tobj, State):
                continue
            para = bool(r.estimation_results[0].estimated_qoperation.on_para_eq_constraint)
            good = 0.6 * qobj.rand_density(g, 2) + 0.4 * np.eye(2) / 2
            u = qobj.rand_unitary(g, 2)
            for label, rho in (("harmless", good),
                               ("ineq-violation", u @ np.diag([1 + 1e-3, -1e-3]) @ u.conj().T),
                               ("ineq-subthreshold", u @ np.diag([1 + 1e-8, -1e-8]) @ u.conj().T),
                               ("ineq-violation-20x", u @ np.diag([1 + 2e-4, -2e-4]) @ u.conj().T),
                               ("ineq-inside-20x", u @ np.diag([1 + 5e-7, -5e-7]) @ u.conj().T),
                               ("eq-violation-20x", good * (1 + 4e-4)),
                               ("eq-violation", good * (1 + 1e-3)),
                               ("eq-subthreshold", good * (1 + 1e-8))):
                if para and label.startswith("eq"):
                    continue
                # all stored estimates replaced by a clearly physical one, then one of them by the probe
                rr = r
                for i in range(len(r.estimation_results)):
                    for k in range(len(r.estimation_results[i].estimated_var_sequence)):
                        rr = with_injected(rr, i, k, state_var(c_sys, good, para))
                i = int(g.integers(0, len(r.estimation_results)))
                k = int(g.integers(0, len(cfg["num_data"])))
                rr = with_injected(rr, i, k, state_var(c_sys, rho, para))
                check_clause(ctx, rr, f"inject{ci}-{label}", dict(rep, clause="check-inject", label=label))


def single_setting_clauses(ctx, g, volume):
    """execute_simulation: the entry point that loops over repetitions itself"""
    n = (3 if ctx.quick else 12) * volume
    for t in range(n):
        n_rep = int(g.integers(2, 5))
        num_data = [int(g.choice([20, 50])), 200]
        seed = int(g.integers(1, 10 ** 6))
        kind = ["linear", "plinear", "loss"][t % 3]
        rep = {"kind": "single", "n_rep": n_rep, "num_data": num_data, "seed": seed, "est": kind}

        def build():
            c_sys = csys1()
            true = generate_qoperation("state", "a", c_sys)
            testers = [generate_qoperation("povm", nm, c_sys) for nm in "xyz"]
            est = {"linear": LinearEstimator, "plinear": ProjectedLinearEstimator, "loss": LossMinimizationEstimator}[kind]()
            kw = {}
            if kind == "loss":
                kw = dict(loss=FWSE(), loss_option=FWSEO("identity"), algo=PGDB(), algo_option=pgdb_opt())
            st = StandardQTomographySimulationSetting(
                name="single", true_object=true, tester_objects=testers, estimator=est, seed_data=seed, n_rep=n_rep,
                num_data=num_data, schedules="all", eps_proj_physical=1e-5, eps_truncate_imaginary_part=1e-5, **kw)
            return sim.generate_qtomography(st, para=True), st

        def run(seed_arg):
            qt, st = build()
            with quiet():
                r = sim.execute_simulation(qt, st, seed_or_generator=seed_arg)
            return fingerprint_single(r)
        try:
            a, b = run(seed), run(seed)
            ga = run(np.random.Generator(np.random.MT19937(seed)))
            gb = run(np.random.Generator(np.random.MT19937(seed)))
            d0 = run(None)    # seed_data of the setting
        except Exception as e:  # noqa
            ctx.violate("C15/single-setting/raises", f"{type(e).__name__}: {e}", rep); continue
        ctx.case(("single", t, kind, n_rep), sample={"clause": "single-setting", "n_rep": n_rep, "estimator": kind})
        ctx.count(f"single-setting runs {kind}")
        for tag, x, y in (("int-seed", a, b), ("generator", ga, gb), ("setting-seed", a, d0)):
            d = diff_single(x, y)
            if d:
                ctx.violate(f"C15/single-setting/rerun/{tag}/{d}", f"two runs with the same {tag} differ in {d}", rep)
        for tag, x in (("int-seed", a), ("generator", ga)):
            dup = reps_identical(x["empi"])
            if dup:
                ctx.violate(f"C15/single-setting/{tag}/repetitions-identical",
                            f"n_rep={n_rep}, num_data={num_data}: repetitions {dup} have identical empirical distributions "
                            f"(and estimates) — they are copies of one draw", rep)


def global_stream_clause(ctx, g, volume):
    """repetitions drawn from the global numpy stream (no explicit seed_or_generator) of a tomography object that was
    created with a data seed: the run is reproducible AND its repetitions are different draws"""
    from quara.protocol.qtomography.standard.standard_qpt import StandardQpt
    n = (2 if ctx.quick else 8) * volume
    for t in range(n):
        for kind in ("qst", "qpt"):
            n_rep = int(g.integers(2, 5))
            num_data = [int(g.choice([50, 100])), 300]
            seed = int(g.integers(1, 10 ** 6))
            via = ["ctor", "generate_qtomography"][t % 2]
            rep = {"kind": "global-stream", "tomography": kind, "n_rep": n_rep, "num_data": num_data, "seed": seed, "via": via}
            try:
                a = global_stream_run(kind, n_rep, num_data, seed, via)
                b = global_stream_run(kind, n_rep, num_data, seed, via)
            except Exception as e:  # noqa
                ctx.violate(f"C15/single-setting/global-stream/{kind}/raises", f"{type(e).__name__}: {e}", rep); continue
            ctx.case(("global-stream", kind, n_rep, seed, via), sample={"clause": "global-stream", "tomography": kind, "n_rep": n_rep})
            ctx.count(f"global-stream runs {kind}")
            d = diff_single(a, b)
            if d:
                ctx.violate(f"C15/single-setting/global-stream/{kind}/rerun/{d}",
                            f"tomography object seeded with {seed}, no explicit stream: two runs differ in {d}", rep)
            dup = reps_identical(a["empi"])
            if dup:
                ctx.violate(f"C15/single-setting/global-stream/{kind}/repetitions-identical",
                            f"tomography object created with seed_data={seed} ({via}), seed_or_generator=None, n_rep={n_rep}: "
                            f"repetitions {dup} have identical empirical distributions (and estimates)", rep)


def global_stream_run(kind, n_rep, num_data, seed, via):
    from quara.protocol.qtomography.standard.standard_qpt import StandardQpt
    c_sys = csys1()
    povms = [generate_qoperation("povm", nm, c_sys) for nm in "xyz"]
    states = [generate_qoperation("state", nm, c_sys) for nm in ("x0", "y0", "z0", "z1")]
    if kind == "qst":
        true, testers = generate_qoperation("state", "a", c_sys), povms
    else:
        true, testers = generate_qoperation("gate", "hadamard", c_sys), states + povms
    if via == "ctor":
        qt = (StandardQst(povms, on_para_eq_constraint=True, seed_data=seed) if kind == "qst"
              else StandardQpt(states, povms, on_para_eq_constraint=True, seed_data=seed))
    else:
        st = StandardQTomographySimulationSetting(
            name="g", true_object=true, tester_objects=testers, estimator=LinearEstimator(), seed_data=seed, n_rep=n_rep,
            num_data=num_data, schedules="all", eps_proj_physical=1e-5, eps_truncate_imaginary_part=1e-5)
        qt = sim.generate_qtomography(st, para=True)      # init_with_seed=True is the default
    with quiet():
        r = sim.generate_empi_dists_and_calc_estimate(qt, true, num_data, LinearEstimator(), iteration=n_rep,
                                                      seed_or_generator=None)
    return fingerprint_single(r)


UNKNOWNS = {"state": (("state", "a"), "povms"), "povm": (("povm", "z"), "states"), "gate": (("gate", "hadamard"), "both"),
            "mprocess": (("mprocess", "z-type1"), "both")}


def unknown_types_run(kind, n_rep, num_data, seed_arg):
    c_sys = csys1()
    povms = [generate_qoperation("povm", nm, c_sys) for nm in "xyz"]
    states = [generate_qoperation("state", nm, c_sys) for nm in ("x0", "y0", "z0", "z1")]
    (mode, name), which = UNKNOWNS[kind]
    true = generate_qoperation(mode, name, c_sys)
    testers = {"povms": povms, "states": states, "both": states + povms}[which]
    st = StandardQTomographySimulationSetting(
        name="u", true_object=true, tester_objects=testers, estimator=LinearEstimator(), seed_data=11, n_rep=n_rep,
        num_data=num_data, schedules="all", eps_proj_physical=1e-5, eps_truncate_imaginary_part=1e-5)
    qt = sim.generate_qtomography(st, para=True, init_with_seed=False)
    arg = np.random.Generator(np.random.MT19937(seed_arg[1])) if seed_arg[0] == "generator" else seed_arg[1]
    with quiet():
        r = sim.execute_simulation(qt, st, seed_or_generator=arg)
    return fingerprint_single(r)


def unknown_types_clause(ctx, g, volume):
    """the single-setting entry point with each of the four object types as the unknown: reproducible, repetitions are
    different draws (integer seed and Generator object)"""
    for t in range((1 if ctx.quick else 4) * volume):
        for kind in UNKNOWNS:
            for how in ("int", "generator"):
                n_rep, num_data = int(g.integers(2, 4)), [40, 150]
                seed = int(g.integers(1, 10 ** 6))
                rep = {"kind": "unknown-type", "unknown": kind, "how": how, "seed": seed, "n_rep": n_rep, "num_data": num_data}
                try:
                    a = unknown_types_run(kind, n_rep, num_data, (how, seed))
                    b = unknown_types_run(kind, n_rep, num_data, (how, seed))
                except Exception as e:  # noqa
                    ctx.violate(f"C15/single-setting/unknown={kind}/raises/{type(e).__name__}",
                                f"execute_simulation with a {kind} as the unknown ({how} seed): {type(e).__name__}: {e}", rep)
                    continue
                ctx.case(("unknown-type", kind, how, seed), sample={"clause": "single-setting unknown type", "unknown": kind, "seed": how})
                ctx.count(f"single-setting unknown={kind}")
                d = diff_single(a, b)
                if d:
                    ctx.violate(f"C15/single-setting/unknown={kind}/{how}/rerun/{d}", f"two runs with the same seed differ in {d}", rep)
                dup = reps_identical(a["empi"])
                if dup:
                    ctx.violate(f"C15/single-setting/unknown={kind}/{how}/repetitions-identical",
                                f"{kind} unknown, n_rep={n_rep}, {how} seed {seed}: repetitions {dup} have identical empirical "
                                f"distributions (and estimates)", rep)


def same_objects_clause(ctx, g, volume):
    """execute_simulation twice on the SAME tomography / setting objects with an explicit integer seed (0 included; the
    tomography object is not seeded itself): the global numpy stream — reseeded differently in between — must not matter"""
    for seed in [0, 1, 7] + [int(x) for x in g.integers(2, 10 ** 6, size=(1 if ctx.quick else 6) * volume)]:
        for via_setting in (False, True):
            n_rep, num_data = int(g.integers(2, 4)), [30, 120]
            rep = {"kind": "same-objects", "seed": seed, "n_rep": n_rep, "num_data": num_data, "via_setting": via_setting}
            try:
                a, b = same_objects_run(seed, n_rep, num_data, via_setting)
            except Exception as e:  # noqa
                ctx.violate("C15/single-setting/same-objects/raises", f"{type(e).__name__}: {e}", rep); continue
            ctx.case(("same-objects", seed, via_setting), sample={"clause": "same-objects", "seed": seed})
            ctx.count("same-objects runs seed=" + ("0" if seed == 0 else "nonzero"))
            d = diff_single(a, b)
            if d:
                ctx.violate(f"C15/single-setting/same-objects/seed={'0' if seed == 0 else 'nonzero'}/{d}",
                            f"execute_simulation twice on the same objects with integer seed {seed} "
                            f"({'seed_data of the setting' if via_setting else 'explicit seed_or_generator'}): {d} differ", rep)


def same_objects_run(seed, n_rep, num_data, via_setting):
    c_sys = csys1()
    true = generate_qoperation("state", "a", c_sys)
    testers = [generate_qoperation("povm", nm, c_sys) for nm in "xyz"]
    st = StandardQTomographySimulationSetting(
        name="same", true_object=true, tester_objects=testers, estimator=LinearEstimator(), seed_data=seed, n_rep=n_rep,
        num_data=num_data, schedules="all", eps_proj_physical=1e-5, eps_truncate_imaginary_part=1e-5)
    qt = sim.generate_qtomography(st, para=True, init_with_seed=False)
    out = []
    for k in range(2):
        np.random.seed(12345 + 999 * k)
        with quiet():
            r = sim.execute_simulation(qt, st, seed_or_generator=None if via_setting else seed)
        out.append(fingerprint_single(r))
    return out


def fingerprint_single(r):
    return {"empi": [[[(int(n), np.array(p)) for n, p in dists] for dists in seq] for seq in r.empi_dists_sequences],
            "est": [[np.array(v) for v in er.estimated_var_sequence] for er in r.estimation_results]}


def diff_single(x, y):
    for sa, sb in zip(x["empi"], y["empi"]):
        for la, lb in zip(sa, sb):
            for (na, pa), (nb, pb) in zip(la, lb):
                if na != nb or not np.array_equal(pa, pb):
                    return "empirical-distributions"
    for ea, eb in zip(x["est"], y["est"]):
        if any(not np.array_equal(u, v) for u, v in zip(ea, eb)):
            return "estimates"
    return None


def depol_case(c_sys, mode, name, obj, p, g):
    """depolarised generation of one base (catalogue name, or `obj` handed in as a QOperation) at rate p: the stated
    mixture in matrix form on random input states, and physicality.  Returns [(tag, what)] of the problems found."""
    B = qobj.basis_mats(c_sys)
    d = c_sys.dim
    mat = lambda v: sum(x * b for x, b in zip(v, B))  # noqa
    X = obj if obj is not None else generate_qoperation(mode, name, c_sys)
    # the two routes that build a depolarised object: the generation setting used by the simulations, and (for catalogue
    # names) qoperation_typical.generate_qoperation_depolarized
    routes = [("setting", lambda: DepolarizedQOperationGenerationSetting(c_sys, X if obj is not None else (mode, name), p).generate())]
    if obj is None:
        from quara.objects.qoperation_typical import generate_qoperation_depolarized
        routes.append(("typical", lambda: generate_qoperation_depolarized(mode, name, c_sys, p)))
    out = []
    Y = None
    for route, make in routes:
        try:
            Yr = make()
        except Exception as e:  # noqa
            out.append((f"raises/{route}", f"{name}, p={p}: {type(e).__name__}: {e}"))
            continue
        Y = Y if Y is not None else Yr
        worst = 0.0
        if mode == "state":
            worst = np.abs(mat(Yr.vec) - ((1 - p) * mat(X.vec) + p * np.eye(d) / d)).max()
        elif mode == "povm":
            # measuring after depolarisation: tr(E'_x rho) = (1-p) tr(E_x rho) + p tr(E_x)/d
            for vy, vx in zip(Yr.vecs, X.vecs):
                E = mat(vx)
                worst = max(worst, np.abs(mat(vy) - ((1 - p) * E + p * np.trace(E) / d * np.eye(d))).max())
        else:
            # gate / measurement process: every output is mixed with the maximally mixed state of the same weight
            hy = [Yr.hs] if mode == "gate" else list(Yr.hss)
            hx = [X.hs] if mode == "gate" else list(X.hss)
            for a, b in zip(hy, hx):
                for _ in range(4):
                    rho = qobj.rand_density(g, d, rank=int(g.integers(1, d + 1)))
                    out_x = mat(b @ qobj.vec_of(c_sys, rho))
                    out_y = mat(a @ qobj.vec_of(c_sys, rho))
                    worst = max(worst, np.abs(out_y - ((1 - p) * out_x + p * np.trace(out_x) * np.eye(d) / d)).max())
        if worst > 1e-10:
            out.append((f"mixture/{route}" if route != "setting" else "mixture",
                        f"{name} with rate {p} ({route}) is not (1-p)·X + p·X_mixed (max deviation {worst:.3g} on the matrix form)"))
        if not Yr.is_physical():
            out.append((f"not-physical/{route}" if route != "setting" else "not-physical", f"{name} with rate {p} ({route}) is not physical"))
    return out


def noise_clauses(ctx, g, volume):
    """depolarising generation = stated mixture, physical for p in [0,1]; random-Lindbladian generation physical and a
    function of its generator"""
    c_sys = csys1()
    B = qobj.basis_mats(c_sys)
    d = 2
    ps = [0.0, 1.0, 0.5] + [float(x) for x in np.round(g.uniform(0, 1, 3 if ctx.quick else 12), 4)]
    bases = [("state", "z0", None), ("state", "a", None), ("state", "y1", None), ("povm", "x", None), ("povm", "z", None),
             ("gate", "hadamard", None), ("gate", "x90", None), ("gate", "piover8", None),
             ("mprocess", "z-type1", None), ("mprocess", "x-type2", None)]
    # bases handed in as objects: non-unital gates, non-projective POVMs, general measurement processes — the order of
    # composition with the depolarising channel is invisible on unital / projective catalogue objects
    from quara.objects.gate import get_amplitutde_damping_channel
    ad = get_amplitutde_damping_channel(float(np.round(g.uniform(0.2, 0.8), 3)), c_sys)
    bases += [("state", "random-mixed", qobj.rand_state(g, c_sys)),
              ("povm", "random-3-outcome", qobj.rand_povm(g, c_sys, 3)),
              ("povm", "random-2-outcome-rank2", qobj.rand_povm(g, c_sys, 2)),
              ("gate", "amplitude-damping", ad),
              ("gate", "random-cptp", qobj.rand_gate(g, c_sys, kraus_rank=2)),
              ("gate", "rotation-after-amplitude-damping", compose_qoperations(generate_qoperation("gate", "x90", c_sys), ad)),
              ("mprocess", "random-3-outcome", qobj.rand_mprocess(g, c_sys, 3)[0]),
              ("mprocess", "random-rank2", qobj.rand_mprocess(g, c_sys, 2, kraus_rank=2)[0])]
    for mode, name, obj in bases:
        X = obj if obj is not None else generate_qoperation(mode, name, c_sys)
        for p in ps:
            rep = {"kind": "depol", "mode": mode, "name": name, "p": p,
                   "arrays": None if obj is None else [np.array(a).tolist() for a in arrays_of(obj)]}
            ctx.case(("depol", mode, name, p), nontrivial=0 < p < 1, sample={"clause": "depolarized", "object": [mode, name], "p": p})
            ctx.count(f"depolarized {mode}" + (" (object base)" if obj is not None else ""))
            for tag, what in depol_case(c_sys, mode, name, X if obj is not None else None, p, g):
                ctx.violate(f"C15/depolarized/{mode}/{tag}", what, rep)
    for p in (-0.01, 1.01):
        try:
            DepolarizedQOperationGenerationSetting(c_sys, ("state", "z0"), p)
            ctx.violate("C15/depolarized/rate-outside-unit-interval-accepted", f"error_rate={p} accepted", {"kind": "depol-range", "p": p})
        except ValueError:
            pass
    nl = (4 if ctx.quick else 24) * volume
    for t in range(nl):
        mode, name = [("state", "z0"), ("povm", "x"), ("gate", "hadamard"), ("mprocess", "z-type1")][t % 4]
        sh, sk = float(np.round(10 ** g.uniform(-3, -0.3), 4)), float(np.round(10 ** g.uniform(-3, -0.3), 4))
        seed = int(g.integers(1, 10 ** 6))
        rep = {"kind": "lindbladian", "mode": mode, "name": name, "h": sh, "k": sk, "seed": seed}
        try:
            gs = RandomEffectiveLindbladianGenerationSetting(c_sys, (mode, name), "identity", sh, sk)
            a = gs.generate(np.random.Generator(np.random.MT19937(seed)))[0]
            b = gs.generate(np.random.Generator(np.random.MT19937(seed)))[0]
            c = gs.generate(np.random.Generator(np.random.MT19937(seed + 1)))[0]
        except Exception as e:  # noqa
            ctx.violate(f"C15/random-lindbladian/{mode}/raises", f"{type(e).__name__}: {e}", rep); continue
        ctx.case(("lindbladian", mode, name, sh, sk, seed), sample={"clause": "random-lindbladian", "object": [mode, name], "strengths": [sh, sk]})
        ctx.count(f"random lindbladian {mode}")
        if any(not np.array_equal(x, y) for x, y in zip(arrays_of(a), arrays_of(b))):
            ctx.violate(f"C15/random-lindbladian/{mode}/not-reproducible", "same generator seed, different object", rep)
        if all(np.array_equal(x, y) for x, y in zip(arrays_of(a), arrays_of(c))):
            ctx.violate(f"C15/random-lindbladian/{mode}/ignores-generator", "different generator seed, identical object", rep)
        if not a.is_physical(atol_eq_const=1e-9, atol_ineq_const=1e-9):
            ctx.violate(f"C15/random-lindbladian/{mode}/not-physical", f"strengths {sh}, {sk}: generated object is not physical", rep)


def seed_clause(ctx, g, volume):
    """the two hypotheses of `flow_streams_distinct`, observed on numpy: spawned children are reproducible and pairwise
    different, and generators seeded with them start differently"""
    from numpy.random import Generator, MT19937, SeedSequence
    for t in range((20 if ctx.quick else 200) * volume):
        seed = int(g.integers(0, 2 ** 31))
        n = int(g.integers(2, 9))
        a = [tuple(s.generate_state(4)) for s in SeedSequence(seed).spawn(n)]
        b = [tuple(s.generate_state(4)) for s in SeedSequence(seed).spawn(n)]
        first = [float(Generator(MT19937(s)).random()) for s in SeedSequence(seed).spawn(n)]
        ctx.case(("spawn", seed, n))
        if a != b or len(set(a)) != n or len(set(first)) != n:
            ctx.violate("C15/seed-sequence/spawn-not-injective-or-not-reproducible", f"seed {seed}, {n} children",
                        {"kind": "spawn", "seed": seed, "n": n})
    ctx.count("seed-sequence spawn checks", (20 if ctx.quick else 200) * volume)


def search(ctx):
    oracle(ctx, volume=2)


# ----------------------------------------------------------------------------- correspondence
class _StubQt:
    """stands in for a tomography object inside the real repetition loop: records the first draw of the stream it is handed"""

    def __init__(self):
        self._template_qoperation = None

    def generate_empi_dists_sequence(self, true_object, num_data, seed_or_generator=None):
        from quara.utils.number_util import to_stream
        stream = to_stream(seed_or_generator)
        return [[(1, np.array([float(stream.random())]))]]


class _StubEstimator:
    """an estimator whose result depends on how many estimates this very object produced before"""

    def __init__(self):
        self.calls = 0

    def calc_estimate_sequence(self, qtomography, empi_dists_seq, is_computation_time_required=False):
        v = 100 * self.calls
        self.calls += 1
        return v


def correspondence(ctx):
    rng = ctx.rng
    g = ctx.npgen("corr")
    drv = Driver("C15")
    pend = []
    c_sys = csys1()
    # thresholds
    for para in (True, False):
        pend.append(("eps", para, (pvc.get_eq_const_eps(para), pvc.get_ineq_const_eps()), drv.ask("eps", int(para))))
        ctx.case(("eps", para))
    # verdict wiring of the built-in check on synthetic results
    good = 0.5 * qobj.rand_density(g, 2) + 0.5 * np.eye(2) / 2
    u = qobj.rand_unitary(g, 2)
    variants = {"11": good, "10": u @ np.diag([1 + 1e-3, -1e-3]) @ u.conj().T, "01": good * (1 + 1e-3),
                "00": (u @ np.diag([1 + 1e-3, -1e-3]) @ u.conj().T) * (1 + 1e-3)}
    povms = [generate_qoperation("povm", nm, c_sys) for nm in "xyz"]
    true = generate_qoperation("state", "z0", c_sys)
    nchk = 300 if ctx.quick else 2000
    for t in range(nchk):
        kind = rng.choice(["plin", "lin", "lossN", "loss00", "loss01", "loss10", "loss11", "other"])
        para = rng.random() < 0.5
        n_rep, n_num = rng.randrange(1, 4), rng.randrange(1, 4)
        if t % 25 == 24:
            n_rep = 0          # no stored result at all
        short = rng.random() < 0.08
        qt = StandardQst(povms, on_para_eq_constraint=para, schedules="all")
        rows, ers = [], []
        for i in range(n_rep):
            keys = [rng.choice(["11", "11", "11", "10"] if para else ["11", "11", "10", "01", "00"]) for _ in range(n_num)]
            if short and i == n_rep - 1 and n_num > 1:
                keys = keys[:-1]
            seq = [state_var(c_sys, variants[k], para) for k in keys]
            er = StandardQTomographyEstimationResult(seq, None, qt._template_qoperation)
            ers.append(er)
            eq_eps = pvc.get_eq_const_eps(para)
            rows.append(",".join(f"{int(o.is_eq_constraint_satisfied(eq_eps))}{int(o.is_ineq_constraint_satisfied(pvc.get_ineq_const_eps()))}"
                                 for o in er.estimated_qoperation_sequence) or "-")
        est = {"plin": ProjectedLinearEstimator(), "lin": LinearEstimator(), "other": _StubEstimator()}.get(kind) or LossMinimizationEstimator()
        ao = None if kind in ("plin", "lin", "other", "lossN") else pgdb_opt(kind[4] == "1", kind[5] == "1")
        st = StandardQTomographySimulationSetting(
            name="synthetic", true_object=true, tester_objects=povms, estimator=est, seed_data=1, n_rep=n_rep,
            num_data=[10 * (k + 1) for k in range(n_num)], schedules="all", eps_proj_physical=1e-5,
            eps_truncate_imaginary_part=1e-5, algo=None if ao is None else PGDB(), algo_option=ao)
        r = SimulationResult(estimation_results=ers, empi_dists_sequences=None, qtomography=qt)
        r.simulation_setting = st
        try:
            with quiet():
                got = str(bool(StandardQTomographySimulationCheck(r).execute_physicality_violation_check(show_detail=False))).lower()
        except IndexError:
            got = "indexError"
        if n_rep == 0:
            ctx.count("check wiring with no stored result")
        pend.append(("check", {"kind": kind, "para": para, "rows": rows}, got, drv.ask("check", kind, int(para), n_num, *rows)))
        ctx.case(("check", kind, para, tuple(rows)), nontrivial=any(c == "0" for r_ in rows for c in r_),
                 sample={"op": "check", "kind": kind, "para": para, "rows": rows})
        ctx.count(f"check wiring kind={kind}")
    # depolarising channel on vectors and HS matrices
    for t in range(20 if ctx.quick else 120):
        p = float(rng.choice([0.0, 1.0, 0.25, round(rng.random(), 3)]))
        dp = get_depolarizing_channel(p, c_sys)
        v = qobj.dyadic(g, 4, bits=8)
        st = State(c_sys, v, is_physicality_required=False)
        out = compose_qoperations(dp, st).vec
        pend.append(("depolvec", {"p": p, "v": v.tolist()}, out, drv.ask("depolvec", q(p), qlist(v))))
        hs = qobj.dyadic(g, (4, 4), bits=8)
        gt = Gate(c_sys, hs, is_physicality_required=False)
        outg = compose_qoperations(dp, gt).hs
        pend.append(("depolhs", {"p": p}, outg.flatten(), drv.ask("depolhs", q(p), 4, qlist(hs.flatten()))))
        ctx.case(("depol", p, tuple(v)), nontrivial=0 < p < 1)
        ctx.count("depolarising channel applications")
    # seed plumbing of the real repetition loop: which repetitions coincide
    for kind in ("int", "gen", "none"):
        for n in (2, 3, 5):
            seed = rng.randrange(1, 10 ** 6)
            np.random.seed(seed)
            arg = {"int": seed, "gen": np.random.Generator(np.random.MT19937(seed)), "none": None}[kind]
            with quiet():
                r = sim.generate_empi_dists_and_calc_estimate(_StubQt(), None, [1], _StubEstimator(), iteration=n,
                                                              seed_or_generator=arg)
            draws = [seq[0][0][1][0] for seq in r.empi_dists_sequences]
            pend.append(("loop", {"kind": kind, "n": n}, pattern(draws), drv.ask("loop", kind, seed % 1000, n)))
            # the shared estimator object is threaded through the repetitions (no copies in the serial loop)
            ests = [int(e) for e in r.estimation_results]
            pend.append(("batches", {"n": n}, ests, drv.ask("batches", n, ",".join(str(i) for i in range(n)))))
            ctx.case(("loop", kind, n), sample={"op": "loop", "seed_arg": kind, "n_rep": n, "pattern": pattern(draws)})
            ctx.count(f"loop plumbing {kind}")
    # the flow's per-repetition generators: equality pattern of the first draws and prefix stability, model (toy tree and
    # generator) vs numpy (SeedSequence.spawn + MT19937)
    from numpy.random import Generator, MT19937, SeedSequence
    for t in range(6 if ctx.quick else 40):
        seed = rng.randrange(1, 10 ** 6)
        n = rng.randrange(2, 7)
        real = [float(Generator(MT19937(sq)).random()) for sq in SeedSequence(seed).spawn(n + 1)]
        pend.append(("flow", {"seed": seed, "n": n}, (pattern(real[:n]), pattern(real)),
                     (drv.ask("flow", seed % 1000, n), drv.ask("flow", seed % 1000, n + 1))))
        ctx.case(("flowspawn", seed, n), sample={"op": "flow", "seed": seed, "n_rep": n})
        ctx.count("flow spawn patterns")
    out = drv.run()
    for op, inp, impl, i in pend:
        ctx.corr_ops.add(op)
        if op == "flow":
            a, b = out[i[0]].split(","), out[i[1]].split(",")
            if (pattern(a), pattern(b)) != impl or b[:len(a)] != a:
                ctx.disagree(op, inp, impl, (out[i[0]], out[i[1]]))
            continue
        r = out[i]
        if op == "eps":
            t = r.split()
            if not (close(impl[0], float(_fr(t[0])), 1e-12) and close(impl[1], float(_fr(t[1])), 1e-12)):
                ctx.disagree(op, inp, impl, r)
        elif op == "check":
            if r != impl:
                ctx.disagree(op, inp, impl, r)
        elif op == "depolvec":
            t = r.split()
            if not (allclose(impl, [float(x) for x in unqlist(t[0])]) and allclose(impl, [float(x) for x in unqlist(t[1])])):
                ctx.disagree(op, inp, list(impl), r)
        elif op == "depolhs":
            if not allclose(impl, [float(x) for x in unqlist(r)]):
                ctx.disagree(op, inp, list(impl), r)
        elif op == "loop":
            model = pattern(r.split()[0].split(","))
            if model != impl:
                ctx.disagree(op, inp, impl, r)
        elif op == "batches":
            model = [int(x) - k for k, x in enumerate(r.split(","))]
            if model != impl:
                ctx.disagree(op, inp, impl, r)


def pattern(xs):
    """equality pattern of a sequence: index of the first occurrence of each element"""
    first = {}
    return [first.setdefault(str(x), i) for i, x in enumerate(xs)]


def _fr(s):
    from fractions import Fraction
    return Fraction(s)


# ----------------------------------------------------------------------------- replay
def replay(ctx, data):
    r = data["replay"]
    sig = data.get("signature", "")
    print("replaying", sig, "-", r.get("kind"))
    if r["kind"] == "single":
        c_sys = csys1()
        true = generate_qoperation("state", "a", c_sys)
        testers = [generate_qoperation("povm", nm, c_sys) for nm in "xyz"]
        st = StandardQTomographySimulationSetting(
            name="single", true_object=true, tester_objects=testers, estimator=LinearEstimator(), seed_data=r["seed"],
            n_rep=r["n_rep"], num_data=r["num_data"], schedules="all", eps_proj_physical=1e-5, eps_truncate_imaginary_part=1e-5)
        qt = sim.generate_qtomography(st, para=True)
        with quiet():
            res = sim.execute_simulation(qt, st, seed_or_generator=r["seed"])
        fp = fingerprint_single(res)
        for i, seq in enumerate(fp["empi"]):
            print(f"  repetition {i}: empirical distributions", [[p.tolist() for _, p in d] for d in seq])
        dup = reps_identical(fp["empi"])
        print("  identical repetitions:", dup)
        return 1 if dup else 0
    if r["kind"] == "flow":
        cfg = r["cfg"]
        base = fingerprint(run_flow(cfg))
        pm = r.get("parallel")
        if pm:
            other = fingerprint(run_flow(cfg, pm))
            d = diff_fp(base, other)
            want = data.get("signature", "").split("/", 4)[-1] if "/parallel/" in sig else None
            print("  serial vs", pm, "->", d)
            for x, y in zip(base, other):
                print("   case", x["name"], "serial estimates", [v.tolist() for v in x["est"][-1]], "| parallel", [v.tolist() for v in y["est"][-1]])
            return 1 if (want in d if want else d) else 0
    if r["kind"] == "unknown-type":
        try:
            fp = unknown_types_run(r["unknown"], r["n_rep"], r["num_data"], (r["how"], r["seed"]))
        except Exception as e:  # noqa
            print(f"  execute_simulation raised {type(e).__name__}: {e}")
            return 1 if "/raises/" in sig else 0
        for i, seq in enumerate(fp["empi"]):
            print(f"  repetition {i}:", [p.tolist() for _, p in seq[0]][:3])
        dup = reps_identical(fp["empi"])
        print("  identical repetitions:", dup)
        return 1 if dup else 0
    if r["kind"] == "same-objects":
        a, b = same_objects_run(r["seed"], r["n_rep"], r["num_data"], r["via_setting"])
        d = diff_single(a, b)
        print("  first run :", [[p.tolist() for _, p in dd] for dd in a["empi"][0]][:1])
        print("  second run:", [[p.tolist() for _, p in dd] for dd in b["empi"][0]][:1])
        print("  differ in:", d)
        return 1 if d else 0
    if r["kind"] == "global-stream":
        fp = global_stream_run(r["tomography"], r["n_rep"], r["num_data"], r["seed"], r["via"])
        for i, seq in enumerate(fp["empi"]):
            print(f"  repetition {i}: empirical distributions (first sample size)", [p.tolist() for _, p in seq[0]][:4])
        dup = reps_identical(fp["empi"])
        print("  identical repetitions:", dup)
        return 1 if dup else 0
    if r["kind"] == "depol":
        c_sys = csys1()
        obj = None
        if r.get("arrays"):
            arrs = [np.array(a, dtype=np.float64) for a in r["arrays"]]
            obj = {"state": lambda: State(c_sys, arrs[0]), "povm": lambda: Povm(c_sys, arrs),
                   "gate": lambda: Gate(c_sys, arrs[0]), "mprocess": lambda: MProcess(c_sys, arrs)}[r["mode"]]()
        probs = depol_case(c_sys, r["mode"], r["name"], obj, r["p"], ctx.npgen("replay"))
        for tag, what in probs:
            print("  PROBLEM:", tag, what)
        return 1 if probs else 0
    before = len(ctx.violations)
    oracle(ctx)
    hit = [v for v in ctx.violations[before:] if v["signature"] == sig]
    for v in hit:
        print("  PROBLEM:", v["signature"], v["what"])
    return 1 if hit else 0
