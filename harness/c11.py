"""C11 — loss minimisation attains the constrained optimum.

correspondence: the line-search acceptance rule of QModel.C10/C11 replayed on the real loss values of all four loss
families along recorded backtracking runs; the objective built by the CVXPY-backed estimator against the model formulas;
the convert → project → convert wrapper of calc_proj_physical_with_var.
oracle (real code): along recorded histories the loss never increases and every iterate is feasible; descent-direction
inequality of the installed projection; optimality certificate of the returned estimate against the truth, random
physical points, the projected linear estimate and the CVXPY/SCS estimate (losses evaluated by an independent numpy
formula); agreement of the two estimators; the CVXPY estimate is physical and itself not beaten."""
import hashlib, math, os, time
from concurrent.futures import ProcessPoolExecutor
import numpy as np
import shim  # noqa: F401
from common import Driver, q, qlist, unqlist, allclose, close
import c10lib as L
from quara.interface.cvxpy.qtomography.standard.estimator import CvxpyLossMinimizationEstimator
from quara.interface.cvxpy.qtomography.standard.loss_function import (
    CvxpyRelativeEntropy, CvxpyUniformSquaredError, CvxpyLossFunctionOption)
from quara.interface.cvxpy.qtomography.standard.minimization_algorithm import (
    CvxpyMinimizationAlgorithm, CvxpyMinimizationAlgorithmOption)

PROP = "C11"
import c10_translate
LEAN_EXTRA_SOURCES = ("C10.lean",)


def translate(ctx):
    """regenerate lean/QGen/C10.lean from the projected-gradient sources (the table theorems of QProps/C10 are about it)"""
    try:
        c10_translate.translate()
    except c10_translate.Untranslatable as e:
        return [f"translator (QGen/C10.lean): {e}"]
    return []

WORKERS = max(1, min(8, (os.cpu_count() or 2) // 2))
STOP_MODES = ["single_difference_loss", "sum_absolute_difference_loss", "sum_absolute_difference_variable",
              "sum_absolute_difference_projected_gradient"]
# stopping thresholds that make the four modes comparably strict (the loss modes bound a decrease ~ |step|^2)
MODE_EPS = {"single_difference_loss": 1e-14, "sum_absolute_difference_loss": 1e-14,
            "sum_absolute_difference_variable": 1e-8, "sum_absolute_difference_projected_gradient": 3e-6}


def gen(seed, salt):
    h = int(hashlib.sha256(f"{PROP}-{seed}-{salt}".encode()).hexdigest()[:16], 16)
    return np.random.Generator(np.random.PCG64(h))


# ----------------------------------------------------------------------------- independent loss formulas
def model_probs(qt, var):
    """model distributions of the variable `var`, by the harness's own Born rule over the tester objects and the schedule list
    (c10lib.born_probs) -- independent of quara's coefficient matrices matA / vecB"""
    obj = qt._template_qoperation.generate_from_var(np.asarray(var, dtype=float))
    return np.concatenate(L.born_probs(qt, obj))


def born_exact(qt, obj, shots=1000):
    return [(shots, np.array(p, dtype=float)) for p in L.born_probs(qt, obj)]


def born_fewshot(g, qt, obj, shots):
    out = []
    for p in L.born_probs(qt, obj):
        p = np.clip(np.array(p, dtype=float), 0, None)
        out.append((shots, g.multinomial(shots, p / p.sum()) / shots))
    return out


def ref_loss(fam, qt, empi, var):
    """identity-weight squared error / relative entropy of the data against the affine probability model, written
    independently of quara.loss_function (clipping of p at 1e-10 as documented there)"""
    p = model_probs(qt, var)
    qv = np.concatenate([np.asarray(d, dtype=float) for _, d in empi])
    if fam in ("se", "fse"):
        return float(np.sum((p - qv) ** 2))
    m = qv >= 1e-10
    with np.errstate(all="ignore"):
        return float(np.sum(qv[m] * (np.log(qv[m]) - np.log(np.maximum(p[m], 1e-10)))))


def to_var(qt, obj):
    return obj.convert_stacked_vector_to_var(obj.composite_system, obj.to_stacked_vector(),
                                             on_para_eq_constraint=qt.on_para_eq_constraint)


def run_cvx(qt, empi, fam, eps_tol=1e-9):
    CL = CvxpyUniformSquaredError if fam in ("se", "fse") else CvxpyRelativeEntropy
    est = CvxpyLossMinimizationEstimator()
    r, msg = L.quiet(est.calc_estimate, qt, [(n, np.array(d, dtype=float)) for n, d in empi], CL(), CvxpyLossFunctionOption(),
                     CvxpyMinimizationAlgorithm(), CvxpyMinimizationAlgorithmOption(name_solver="scs", eps_tol=eps_tol))
    return r


# ============================================================================= oracle
def make_specs(seed, quick, volume=1):
    rnd = np.random.Generator(np.random.PCG64(seed * 104729 + (0 if quick else 1) + 31 * volume))
    cells = []
    reps = (10 if quick else 80) * volume
    for rep in range(reps):
        for kind in ("qst", "povmt", "qpt"):
            for para in (True, False):
                cells.append(("1qubit", kind, para))
        cells.append(("1qutrit", "qst", bool(rep % 2)))
        if not quick:
            cells.append(("1qubit", "qmpt", bool(rep % 2)))
            if rep % 3 == 0:
                cells.append(("1qutrit", "povmt", bool(rep % 2)))
    specs = []
    # cells that every run contains: fast losses x POVM tomography x on_para_eq_constraint=True (the only combination with a
    # non-zero constant term vecB and A^T vecB != 0), 2-outcome POVM (no dependent-element metric issue, D13), plus QST / QPT
    for j, (fam, kind, shots) in enumerate([("fse", "povmt", 10), ("fse", "povmt", 1000), ("fre", "povmt", 10),
                                            ("fre", "povmt", 1000), ("fse", "povmt", "exact"), ("fre", "povmt", "exact"),
                                            ("fse", "qst", 100), ("fre", "qst", 100), ("fse", "qpt", 100), ("fre", "qpt", 100),
                                            ("se", "qst", 100), ("re", "qst", 100), ("se", "povmt", 100), ("re", "povmt", 100)]):
        specs.append({"seed": seed, "salt": 900 + j + 1000 * volume, "sys": "1qubit", "kind": kind, "para": True, "fam": fam,
                      "mode": STOP_MODES[0], "nh": 1, "shots": shots, "truth": ["interior", "boundary"][j % 2],
                      "m": 2 if kind == "povmt" else None})
    # explicit schedule lists in a non-default order (the same experiments, permuted): data and reference loss follow the harness's
    # Born rule over the schedule list
    for j, (fam, kind, para, shots) in enumerate([("fse", "qst", True, "exact"), ("fre", "qst", False, 1000), ("se", "qst", False, 100),
                                                  ("fre", "povmt", False, "exact"), ("fse", "qpt", True, 1000), ("re", "qst", True, "exact")]):
        specs.append({"seed": seed, "salt": 950 + j + 1000 * volume, "sys": "1qubit", "kind": kind, "para": para, "fam": fam,
                      "mode": STOP_MODES[0], "nh": 1, "shots": shots, "truth": ["interior", "boundary"][j % 2],
                      "m": 2 if kind == "povmt" else None, "perm": True})
    fams = ["se", "re", "fse", "fre"]
    shots_all = ["exact", 10, 100, 1000, 100000]
    for i, (sysname, kind, para) in enumerate(cells):
        fam = fams[(i + int(rnd.integers(0, 4))) % 4]
        if sysname == "1qutrit" or kind == "qmpt":
            fam = {"se": "fse", "re": "fre"}.get(fam, fam)
        mode = STOP_MODES[int(rnd.integers(0, 4))] if rnd.random() < 0.5 else STOP_MODES[0]
        shots = shots_all[int(rnd.integers(0, len(shots_all)))]
        specs.append({"seed": seed, "salt": i + 1000 * volume, "sys": sysname, "kind": kind, "para": para, "fam": fam,
                      "mode": mode, "nh": int(rnd.integers(1, 4)) if mode != STOP_MODES[0] else 1, "shots": shots,
                      "truth": ["interior", "boundary"][int(rnd.integers(0, 2))],
                      "m": int(rnd.choice([2, 3, 4])) if kind == "povmt" else (2 if kind == "qmpt" else None),
                      "perm": bool(i % 3 == 1)})
    return specs


def setup(spec):
    g = gen(spec["seed"], spec["salt"])
    qt, c, m = L.make_qt(g, spec["kind"], spec["sys"], spec["para"], m=spec["m"], perm=bool(spec.get("perm")))
    true = L.true_object(g, spec["kind"], c, m, spec["truth"])
    empi = born_exact(qt, true) if spec["shots"] == "exact" else born_fewshot(g, qt, true, int(spec["shots"]))
    return g, qt, c, m, true, empi


def dep_class(spec):
    """POVM / measurement-process tomography with a dependent last element (finding D13)"""
    dep = spec["para"] and (spec["kind"] == "qmpt" or (spec["kind"] == "povmt" and (spec["m"] or 0) > 2))
    return spec["kind"] + ("-dependent-element-parametrisation" if dep else "")


def eval_spec(spec):
    out = {"viol": [], "cases": [], "counts": {}, "t": time.time()}

    def cnt(k):
        out["counts"][k] = out["counts"].get(k, 0) + 1

    def viol(sig, what):
        out["viol"].append({"signature": sig, "what": what, "replay": {"kind": "cell", "spec": spec}})

    g, qt, c, m, true, empi = setup(spec)
    fam, mode, kind = spec["fam"], spec["mode"], spec["kind"]
    cls = dep_class(spec)
    cnt(f"cell {spec['sys']} {kind} para={spec['para']}")
    cnt(f"loss {fam}"); cnt(f"stopping mode {mode}"); cnt(f"shots {spec['shots']}"); cnt(f"truth {spec['truth']}")
    opt = dict(mode_stopping_criterion_gradient_descent=mode, num_history_stopping_criterion_gradient_descent=spec["nh"],
               eps=MODE_EPS[mode])
    try:
        r, msg, lobj, aobj, aopt = L.run_lme(qt, empi, fam, "pgdb", **opt)
    except Exception as e:  # noqa
        key = "-".join("".join(ch if ch.isalnum() else " " for ch in str(e)).split()[:4]).lower()
        lk = "relative-entropy" if fam in ("re", "fre") else "squared-error"
        viol(f"C11/pgdb/raises/{type(e).__name__}:{key}/{lk}", f"{fam} {mode} on {spec['sys']} {kind} para={spec['para']}: "
             f"{type(e).__name__}: {str(e)[:300]}")
        out["t"] = time.time() - out["t"]; return out
    res = r.detailed_results[0]
    xhat = np.array(r.estimated_var, dtype=float)
    f = lambda v: ref_loss(fam, qt, empi, v)  # noqa
    fhat = f(xhat)
    scale = max(1.0, abs(fhat))
    hit_limit = res.k >= aopt.max_iteration_optimization
    if hit_limit:
        cnt("iteration limit reached")
    out["cases"].append(((spec["salt"], fam, mode), True,
                         {"cell": [spec["sys"], kind, spec["para"]], "loss": fam, "mode": mode, "shots": spec["shots"],
                          "k": int(res.k), "loss_at_estimate": fhat}))
    # --- along the recorded history: loss never increases, iterates feasible, descent-direction inequality
    fx = np.array([float(v) for v in res.fx])
    inc = np.diff(fx)
    if inc.size and inc.max() > 1e-12 * scale:
        k = int(inc.argmax())
        viol(f"C11/pgdb/{kind}/loss-increases", f"{fam} {mode}: f(x_{k + 1}) - f(x_{k}) = {inc.max():.3e} > 0")
    # the recorded losses are the losses of the recorded points
    for k in sorted(set([0, len(res.x) // 2, len(res.x) - 1])):
        if abs(f(res.x[k]) - fx[k]) > 1e-9 * max(1.0, abs(fx[k])):
            viol(f"C11/pgdb/{kind}/history-loss-mismatch", f"{fam}: fx[{k}] = {fx[k]!r} but loss of x[{k}] = {f(res.x[k])!r}")
            break
    tol_eq, tol_ineq = 4 * math.sqrt(m or 1) * 1e-7 + 1e-11, 4e-7 + 1e-11
    tmpl = qt._template_qoperation
    idx = sorted(set(np.linspace(0, len(res.x) - 1, min(len(res.x), 10)).astype(int).tolist()))
    for i in idx:
        e2, m2 = L.defects(tmpl.generate_from_var(res.x[i]))
        if e2 > tol_eq or m2 < -tol_ineq:
            viol(f"C11/pgdb/{kind}/iterate-infeasible", f"{fam}: iterate {i}: eq defect {e2:.2e}, min eig {m2:.2e}")
            break
    mu = aopt.mu if aopt.mu else 3 / (2 * np.sqrt(qt.num_variables))
    worst = None
    for k in range(len(res.y)):
        y = np.array(res.y[k]); x = np.array(res.x[k])
        ny = float(np.linalg.norm(y))
        if ny < 1e-5:                    # below the accuracy of the physical projection (sqrt(eps_proj) = 1e-7) nothing to test
            continue
        gk = lobj.gradient(x)
        lhs, rhs = float(y @ gk), -mu * ny * ny
        slack = lhs - rhs                # <= 0 for an exact metric projection
        # the physical projection is accurate to sqrt(eps_proj_physical) = 1e-7 in norm: allow that much relative to |y|
        rel = slack / (ny * (np.linalg.norm(gk) / mu + ny) + 1e-300) - 20e-7 / ny
        if worst is None or rel > worst[0]:
            worst = (rel, k, lhs, rhs, ny)
    if worst is not None and worst[0] > 1e-4:
        viol(f"C11/pgdb/{cls}/not-a-descent-direction",
             f"{fam}: iteration {worst[1] + 1}: <y, grad f> = {worst[2]:.3e} > -mu |y|^2 = {worst[3]:.3e} (|y| = {worst[4]:.2e})")
    # --- the estimate does not depend on whether the history is recorded
    if spec["salt"] % 3 == 0 and res.k <= 150:
        r0 = L.run_lme(qt, empi, fam, "pgdb", history=False, **opt)[0]
        if not np.array_equal(np.array(r0.estimated_var, dtype=float), xhat):
            viol(f"C11/pgdb/{kind}/history-flag-changes-estimate",
                 f"{fam} {mode}: estimate with on_iteration_history differs by {np.abs(np.array(r0.estimated_var) - xhat).max():.3e}")
    # --- the fast loss variant and the generic one describe the same function: same run, same estimate
    if fam in ("fse", "fre") and spec["sys"] == "1qubit" and kind != "qmpt" and res.k <= 150:
        try:
            rg = L.run_lme(qt, empi, {"fse": "se", "fre": "re"}[fam], "pgdb", history=False, **opt)[0]
            dg = float(np.linalg.norm(np.array(rg.estimated_var, dtype=float) - xhat))
            cnt("fast-vs-generic runs")
            if dg > 1e-6:
                viol(f"C11/pgdb/{kind}/fast-vs-generic-loss",
                     f"{fam} {mode} shots={spec['shots']}: estimates with the fast and the generic loss differ by {dg:.3e} "
                     f"(losses {fhat!r} vs {f(np.array(rg.estimated_var, dtype=float))!r})")
        except Exception as e:  # noqa
            viol(f"C11/pgdb/{kind}/raises", f"generic counterpart of {fam}: {type(e).__name__}: {e}")
    # --- several data sets through ONE loss object and ONE algorithm object (calc_estimate_sequence, then the same
    #     objects again in a second call): every element must be the estimate fresh objects give for that data set, and must
    #     not be beaten (independent loss formula, that element's data) by the fresh estimate
    if spec["sys"] == "1qubit" and kind != "qmpt" and res.k <= 150 and (spec["salt"] % 2 == 0 or 900 <= spec["salt"] % 1000):
        shots_b = 37 if spec["shots"] == "exact" else max(7, int(spec["shots"]) // 3)
        empi_b = born_fewshot(g, qt, true, shots_b)
        Lc, LOc = L.LOSSES[fam]
        Ac, AOc = L.ALGOS["pgdb"]
        lobj1, aobj1, aopt1, est1 = Lc(qt.num_variables), Ac(), AOc(**opt), L.LossMinimizationEstimator()
        try:
            rs, _ = L.quiet(est1.calc_estimate_sequence, qt, [empi, empi_b, empi], lobj1, LOc("identity"), aobj1, aopt1)
            seq = [np.array(v, dtype=float) for v in rs.estimated_var_sequence]
            r2, _ = L.quiet(est1.calc_estimate, qt, empi_b, lobj1, LOc("identity"), aobj1, aopt1)      # objects re-used again
            seq.append(np.array(r2.estimated_var, dtype=float))
            fresh_b = np.array(L.run_lme(qt, empi_b, fam, "pgdb", history=False, **opt)[0].estimated_var, dtype=float)
            cnt("shared-loss-object sequences")
            fb = lambda v: ref_loss(fam, qt, empi_b, v)  # noqa
            for j, (got, want, lossf) in enumerate([(seq[0], xhat, f), (seq[1], fresh_b, fb), (seq[2], xhat, f), (seq[3], fresh_b, fb)]):
                dj = float(np.linalg.norm(got - want))
                gapj = lossf(got) - lossf(want)      # (optimality against the truth etc. is the job of the certificate below)
                if dj > 1e-7 or gapj > 1e-6 * max(1.0, abs(lossf(got))):
                    viol(f"C11/pgdb/{kind}/stale-data-in-reused-loss-object",
                         f"{fam}: element {j} of [a, b, a | b] through one loss object differs from the fresh estimate by {dj:.3e}; "
                         f"loss on its own data {lossf(got)!r} vs {lossf(want)!r} (fresh)")
                    break
            # the same loss / algorithm objects once more, now for a DIFFERENT tomography of the same type and size (other
            # tester rotation => other matA): value, gradient and data must all be those of the new experiment
            qt2, c2, m2_ = L.make_qt(g, kind, spec["sys"], spec["para"], m=spec["m"], perm=bool(spec.get("perm")))
            true2 = L.true_object(g, kind, c2, m2_, spec["truth"])
            empi2 = born_exact(qt2, true2) if spec["shots"] == "exact" else born_fewshot(g, qt2, true2, int(spec["shots"]))
            r3, _ = L.quiet(est1.calc_estimate, qt2, empi2, lobj1, LOc("identity"), aobj1, aopt1)
            got2 = np.array(r3.estimated_var, dtype=float)
            fresh2 = np.array(L.run_lme(qt2, empi2, fam, "pgdb", history=False, **opt)[0].estimated_var, dtype=float)
            cnt("loss object re-used for a second tomography")
            f2 = lambda v: ref_loss(fam, qt2, empi2, v)  # noqa
            d2 = float(np.linalg.norm(got2 - fresh2))
            if d2 > 1e-7 or f2(got2) - f2(fresh2) > 1e-6 * max(1.0, abs(f2(got2))):
                viol(f"C11/pgdb/{kind}/stale-model-in-reused-loss-object",
                     f"{fam}: loss/algorithm objects re-used for a second tomography (same type, other testers): estimate differs "
                     f"from the fresh-object estimate by {d2:.3e}; loss {f2(got2)!r} vs {f2(fresh2)!r} (fresh)")
            # the CVXPY-backed estimator with ONE loss / algorithm object for the two tomographies (and a second data set for the
            # first): each estimate must be the fresh-object estimate for that experiment and must not be beaten by the truth
            if spec["para"]:
                CL = CvxpyUniformSquaredError if fam in ("se", "fse") else CvxpyRelativeEntropy
                closs, calgo, cest = CL(), CvxpyMinimizationAlgorithm(), CvxpyLossMinimizationEstimator()
                copt = CvxpyMinimizationAlgorithmOption(name_solver="scs", eps_tol=1e-9)
                cp_ = lambda d: [(n_, np.array(x_, dtype=float)) for n_, x_ in d]  # noqa
                for label, qtx, dx, lossx, truex in (("first tomography", qt, empi, f, true), ("second data set", qt, empi_b, fb, true),
                                                     ("second tomography", qt2, empi2, f2, true2)):
                    rc1, _ = L.quiet(cest.calc_estimate, qtx, cp_(dx), closs, CvxpyLossFunctionOption(), calgo, copt)
                    xs1 = np.array(rc1.estimated_var, dtype=float)
                    xf = np.array(run_cvx(qtx, dx, fam).estimated_var, dtype=float)
                    cnt("cvxpy loss object re-used")
                    if not (np.all(np.isfinite(xs1)) and np.all(np.isfinite(xf))):
                        continue
                    dd = float(np.linalg.norm(xs1 - xf))
                    gap = lossx(xs1) - min(lossx(xf), lossx(to_var(qtx, truex)))
                    if dd > 1e-4 and gap > 1e-5 * max(1.0, abs(lossx(xs1))):
                        viol(f"C11/cvxpy/{kind}/stale-model-in-reused-loss-object",
                             f"{fam}: CVXPY loss object re-used ({label}): estimate differs from the fresh-object estimate by {dd:.3e}; "
                             f"loss {lossx(xs1)!r} vs {lossx(xf)!r} (fresh)")
                        break
        except Exception as e:  # noqa
            viol(f"C11/pgdb/{kind}/raises", f"{fam}: sequence through one loss object: {type(e).__name__}: {str(e)[:200]}")
    # --- optimality certificate
    tol_f = 1e-6 * scale
    comps = [("truth", to_var(qt, true))]
    for j in range(4):
        comps.append((f"random-{j}", to_var(qt, L.true_object(g, kind, c, m, ["interior", "boundary"][j % 2]))))
    try:
        rp, _ = L.run_ple(qt, empi, "eq_ineq")
        comps.append(("projected-linear", np.array(rp.estimated_var)))
    except Exception as e:  # noqa
        viol(f"C11/ple/{kind}/raises", f"{type(e).__name__}: {e}")
    xc = None
    if spec["para"]:
        try:
            rc = run_cvx(qt, empi, fam)
            xc = np.array(rc.estimated_var, dtype=float)
            cnt("cvxpy runs")
        except Exception as e:  # noqa
            viol(f"C11/cvxpy/{kind}/raises", f"{fam}: {type(e).__name__}: {e}")
    if xc is not None and np.all(np.isfinite(xc)):
        ec, mc = L.defects(tmpl.generate_from_var(xc))
        if ec > 1e-6 or mc < -1e-6:
            viol(f"C11/cvxpy/{kind}/not-physical", f"{fam}: CVXPY estimate eq defect {ec:.2e}, min eig {mc:.2e}")
        else:
            comps.append(("cvxpy", xc))
        fc = f(xc)
        for name, z in comps:
            if name != "cvxpy" and f(z) < fc - 1e-5 * max(1.0, abs(fc)):
                viol(f"C11/cvxpy/{kind}/beaten-by-{name.split('-')[0]}", f"{fam}: f(cvxpy) = {fc!r} > f({name}) = {f(z)!r}")
                break
    elif xc is not None:
        viol(f"C11/cvxpy/{kind}/non-finite", f"{fam}: CVXPY estimate contains nan/inf")
    # --- the proved certificate (QProps.C11.eps_optimality_certificate) evaluated on the last recorded iteration:
    #     f(x_next) - f(z) <= |y| (|grad f(x)| + mu |z - x|) for every physical competitor z
    if cls == kind and len(res.y) >= 1:
        xl, yl = np.array(res.x[-2], dtype=float), np.array(res.y[-1], dtype=float)
        gl = np.array(lobj.gradient(xl), dtype=float)
        for name, z in comps:
            z = np.asarray(z, dtype=float)
            fac = float(np.linalg.norm(gl) + mu * np.linalg.norm(z - xl))
            bound = float(np.linalg.norm(yl)) * fac + 20e-7 * fac + 1e-9 * scale      # + accuracy of the physical projection
            if np.isfinite(f(z)) and fhat - f(z) > bound:
                viol(f"C11/pgdb/{kind}/certificate-violated",
                     f"{fam} {mode}: f(estimate) - f({name}) = {fhat - f(z):.3e} > |y|(|grad|+mu|z-x|) = {bound:.3e}")
                break
    if not hit_limit:
        for name, z in comps:
            fz = f(z)
            if fz < fhat - tol_f:
                viol(f"C11/pgdb/{cls}/beaten-by-{name.split('-')[0]}",
                     f"{fam} {mode} shots={spec['shots']}: f(estimate) = {fhat!r} > f({name}) = {fz!r} (gap {fhat - fz:.3e})")
                break
        # projected-gradient residual of the returned point
        # (with a dependent element the installed projection is not the Euclidean one in the variable space, so its fixed
        # points are not the stationarity measure there: optimality is certified by the competitors only)
        ghat = lobj.gradient(xhat)
        resid = float(np.linalg.norm(L.quiet(aobj.func_proj, xhat - ghat / mu)[0] - xhat))
        if resid > 1e-3 and cls == kind:
            viol(f"C11/pgdb/{cls}/projected-gradient-residual", f"{fam} {mode}: |P(x - grad/mu) - x| = {resid:.3e} at the estimate")
        if xc is not None and np.all(np.isfinite(xc)):
            dx = float(np.linalg.norm(xc - xhat))
            tol_x = 1e-4 if fam in ("se", "fse") else 2e-3
            if dx > tol_x and abs(f(xc) - fhat) > tol_f:
                viol(f"C11/agreement/{cls}/pgdb-vs-cvxpy", f"{fam} shots={spec['shots']}: |x_pgdb - x_cvxpy| = {dx:.3e}, "
                     f"losses {fhat!r} vs {f(xc)!r}")
    out["t"] = time.time() - out["t"]
    if os.environ.get("C11_DEBUG"):
        dbg = dict(cell=(spec["sys"], kind, spec["para"], fam, mode, spec["shots"]), k=int(res.k), t=round(out["t"], 2),
                   desc=None if worst is None else float(f"{worst[0]:.2e}"), maxinc=float(inc.max()) if inc.size else 0.0,
                   gaps={n: float(f"{fhat - f(z):.2e}") for n, z in comps}, viol=[v["signature"].split("/")[-1] for v in out["viol"]])
        if not hit_limit:
            dbg["resid"] = float(f"{resid:.2e}")
        if xc is not None:
            dbg["dx"] = float(f"{np.linalg.norm(xc - xhat):.2e}")
        print(dbg, flush=True)
    return out


def run_specs(ctx, specs):
    t0 = time.time()
    if WORKERS > 1 and len(specs) > 4:
        with ProcessPoolExecutor(max_workers=WORKERS) as ex:
            res = list(ex.map(eval_spec, specs, chunksize=1))
    else:
        res = [eval_spec(s) for s in specs]
    for r in res:
        for k, v in r["counts"].items():
            ctx.count(k, v)
        for canon, nt, sample in r["cases"]:
            ctx.case(("oracle",) + tuple(canon), nontrivial=nt, sample=sample)
        for v in r["viol"]:
            ctx.violate(v["signature"], v["what"], v["replay"])
    ctx.notes.append(f"oracle: {len(specs)} cells in {time.time() - t0:.1f}s on {WORKERS} workers; slowest cell {max(r['t'] for r in res):.1f}s")


PARTIAL = [
    "stop_bounds_projected_gradient_partial: window 1, default rule, residual bound only; superseded by stop_mode_guarantees "
    "(all four rules, any window >= 1: f(x_next) - f(z) <= stopDelta * (|grad f(x)| + mu |z - x|))",
    "finite stopping with explicit iteration bounds is proved for all four rules and any window n >= 1 (projected-gradient rule: on "
    "L-smooth losses); with the default eps ~ 1e-14 the bounds exceed the coded iteration limit, so a default run may end on the limit",
    "the convexity hypotheses are pointwise on C; the relative-entropy losses (clipped at 1e-10) satisfy them only where the model "
    "probabilities of observed outcomes exceed the clip, and satisfy no uniform smoothness bound: the smoothness group covers se / fse",
    "the SCS solver is not modelled: only the objectives handed to CVXPY are (cvx_se_equal_shots, cvx_re_equal_shots); the agreement "
    "of the two estimators is an oracle observation; momentum / FISTA optimality is not claimed",
    "IsProjOn (the installed projection is the metric projection onto the physical set) is a hypothesis: C04/C05; it fails for "
    "POVM / measurement-process tomography with on_para_eq_constraint=True (pg_descent_dir_fails_via_stacked, finding D13)",
]


def oracle(ctx, volume=1):
    ctx.partial = PARTIAL
    run_specs(ctx, make_specs(ctx.seed, ctx.quick, volume))


def search(ctx):
    run_specs(ctx, make_specs(ctx.seed + 1000, ctx.quick, 2))


def replay(ctx, data):
    r = data["replay"]
    print("replaying", r)
    if r.get("kind") != "cell":
        return 1
    out = eval_spec(r["spec"])
    for v in out["viol"]:
        print("  still failing:", v["signature"], "-", v["what"])
    if not out["viol"]:
        print("  no violation on this input any more")
    return 1 if out["viol"] else 0


# ============================================================================= correspondence
def lists(xs):
    return ";".join(qlist(x) for x in xs)


def correspondence(ctx):
    drv = Driver(PROP)
    pend = []
    g = ctx.npgen(21)
    # --- 1. line search replayed on real loss values
    cells = [("qst", True), ("qst", False), ("povmt", False), ("qpt", True), ("qpt", False)]
    reps = 2 if ctx.quick else 6
    for kind, para in cells:
        for fam in ("se", "re", "fse", "fre"):
            for rep in range(reps):
                qt, c, m = L.make_qt(g, kind, "1qubit", para)
                true = L.true_object(g, kind, c, m, "interior")
                empi = L.fewshot_data(g, qt, true, int(g.choice([5, 50, 5000])))
                gamma = float(g.choice([0.3, 0.1, 0.6]))
                r, msg, lobj, aobj, aopt = L.run_lme(qt, empi, fam, "pgdb", gamma=gamma, max_iteration_optimization=40)
                res = r.detailed_results[0]
                ctx.count(f"line-search runs loss={fam}")
                ks = sorted(set(list(range(min(res.k, 4))) + [res.k // 2, res.k - 1]))
                for k in ks:
                    x, y, alpha = np.array(res.x[k]), np.array(res.y[k]), float(res.alpha[k])
                    j_acc = int(round(-math.log2(alpha))) if alpha > 0 else 60
                    if j_acc > 50:
                        continue
                    with np.errstate(all="ignore"):
                        fx = float(lobj.value(x))
                        slope = float(np.dot(y, lobj.gradient(x)))
                        vals = [float(lobj.value(x + (0.5 ** j) * y)) for j in range(j_acc + 3)]
                    if not np.all(np.isfinite(vals + [fx, slope])):
                        continue
                    margin = min(abs(v - (fx + gamma * (0.5 ** j) * slope)) for j, v in enumerate(vals[:j_acc + 1]))
                    i = drv.ask("armijo", q(fx), q(slope), q(gamma), qlist(vals))
                    pend.append(("armijo", (kind, para, fam, gamma, k), (alpha, margin, fx), i))
                    ctx.case(("armijo", kind, para, fam, rep, k), nontrivial=j_acc > 0,
                             sample={"op": "armijo", "loss": fam, "iteration": k + 1, "alpha": alpha})
    # --- 2. CVXPY objective
    for kind in ("qst", "povmt", "qpt") + (() if ctx.quick else ("qmpt",)):
        for rep in range(2 if ctx.quick else 5):
            qt, c, m = L.make_qt(g, kind, "1qubit", True)
            true = L.true_object(g, kind, c, m, "interior")
            nsched = len(qt.calc_prob_dists(true))
            equal = rep % 2 == 0
            nums = [100] * nsched if equal else [int(v) for v in g.integers(5, 500, size=nsched)]
            empi = []
            for n, p in zip(nums, qt.calc_prob_dists(true)):
                p = np.clip(np.array(p, dtype=float), 0, None); p /= p.sum()
                empi.append((n, g.multinomial(n, p) / n))
            for CL, op in ((CvxpyUniformSquaredError, "cvxse"), (CvxpyRelativeEntropy, "cvxre")):
                loss = CL()
                loss.set_standard_qtomography(qt)
                loss.set_from_option(CvxpyLossFunctionOption())
                loss.set_prob_dists_data_from_empi_dists([(n, d.copy()) for n, d in empi])
                other = L.true_object(g, kind, c, m, "interior")
                var = to_var(qt, other) + (0.0 if op == "cvxre" else 0.05 * g.standard_normal(qt.num_variables))
                impl = float(loss.value(np.array(var)))
                ps = [np.array(qt.get_coeffs_1st_mat(i)) @ var + np.array(qt.get_coeffs_0th_vec(i)) for i in range(nsched)]
                qs = [np.array(d, dtype=float) for d in loss.prob_dists_data]
                if op == "cvxse":
                    # the right-hand side of cvx_se_equal_shots is the loss the projected-gradient estimators minimise: take it
                    # from quara's own generic and fast squared-error loss objects (identity weights), not from a formula here
                    vals_q = []
                    for fam_ in ("se", "fse"):
                        Lq, LOq = L.LOSSES[fam_]
                        lq = Lq(qt.num_variables)
                        lq.set_from_standard_qtomography_option_data(qt, LOq("identity"), [(n_, np.array(d_, dtype=float)) for (n_, _), d_ in zip(empi, qs)],
                                                                     True, False)
                        vals_q.append(float(lq.value(np.array(var, dtype=float))))
                    plain = vals_q[0]
                    if abs(vals_q[0] - vals_q[1]) > 1e-9 * max(1.0, abs(plain)):
                        ctx.disagree("cvxse", (kind, equal, rep), vals_q, "generic and fast squared-error loss differ")
                    i = drv.ask("cvxse", qlist(nums), lists(ps), lists(qs))
                    pend.append(("cvxse", (kind, equal, rep), (impl, plain, equal, nsched), i))
                else:
                    with np.errstate(all="ignore"):
                        lp = [np.log(np.where(p > 0, p, 1.0)) for p in ps]
                        lq = [np.log(np.where(d > 0, d, 1.0)) for d in qs]
                    i = drv.ask("cvxre", qlist(nums), q(loss.eps_prob_zero), lists(ps), lists(qs), lists(lp), lists(lq))
                    pend.append(("cvxre", (kind, equal, rep), (impl,), i))
                ctx.case((op, kind, rep), sample={"op": op, "kind": kind, "equal_shots": equal, "value": impl})
                ctx.count(f"{op} equal_shots={equal}")
    # --- 3. the convert -> project -> convert wrapper (plan of projViaStacked evaluated with the real kernels)
    nvs = 0
    for kind in L.KINDS:
        qt, c, m = L.make_qt(g, kind, "1qubit", True)
        si = qt.generate_empty_estimation_obj_with_setting_info()
        for rep in range(2):
            v = to_var(qt, L.true_object(g, kind, c, m, "interior")) + 0.3 * g.standard_normal(qt.num_variables)
            direct, _ = L.quiet(si.calc_proj_physical_with_var, v.copy(), on_para_eq_constraint=True)
            s = si.convert_var_to_stacked_vector(c, v.copy(), on_para_eq_constraint=True)
            ps_, _ = L.quiet(si.calc_proj_physical_with_var, s, on_para_eq_constraint=False)
            via = si.convert_stacked_vector_to_var(c, ps_, on_para_eq_constraint=True)
            ctx.corr_ops.add("viastacked-plan")
            ctx.case(("viastacked", kind, rep))
            nvs += 1
            if not np.allclose(direct, via, rtol=0, atol=1e-12):
                ctx.disagree("viastacked-plan", (kind, rep), np.asarray(direct).tolist(), np.asarray(via).tolist())
    i = drv.ask("viastacked", "-4", "1")
    pend.append(("viastacked", "toy", "0 -1", i))
    out = drv.run()
    skipped = 0
    for op, inp, impl, i in pend:
        ctx.corr_ops.add(op)
        rep = out[i]
        if rep == "bad-op":
            ctx.disagree(op, inp, "request", rep); continue
        if op == "armijo":
            alpha, margin, fx = impl
            if margin <= 1e-13 * max(1.0, abs(fx)):
                skipped += 1; continue
            if rep == "none" or float(unqlist(rep.split()[1])[0]) != alpha:
                ctx.disagree(op, inp, alpha, rep)
        elif op == "cvxse":
            val, plain, equal, nsched = impl
            t = rep.split()
            mv, mp = float(unqlist(t[0])[0]), float(unqlist(t[1])[0])
            ok = close(mv, val) and close(mp, plain)
            if equal:        # equal shots: the CVXPY objective is the identity-weight squared error / number of schedules
                ok = ok and close(mv * nsched, mp)
            if not ok:
                ctx.disagree(op, inp, [val, plain], rep)
        elif op == "cvxre":
            if not close(float(unqlist(rep)[0]), impl[0]):
                ctx.disagree(op, inp, impl[0], rep)
        elif op == "viastacked":
            if rep != impl:
                ctx.disagree(op, inp, impl, rep)
    ctx.notes.append(f"correspondence: {len(pend)} requests (+{nvs} wrapper plans), {skipped} line searches skipped because the "
                     f"acceptance test was within rounding distance")
