"""C14 - sampled data and empirical distributions: correspondence with QModel.C14 and property oracle.

Inputs (property quantifier): probability vectors with exact zeros (leading / inner / trailing), tiny entries, 2..16
outcomes, dyadic (float cumulative sums exact, so uniforms *on* the cumulative boundaries are meaningful) and generic;
uniforms on / next to every cumulative boundary, 0, the largest double below 1; sample-size lists (valid, empty, too
large, non-increasing, zero); integer seed vs Generator vs global state with unrelated preceding draws; the
data_generator, Experiment and four tomography entry points."""
import itertools
import numpy as np
import shim  # noqa: F401
from scipy.stats import multinomial
from common import Driver, q, qlist, ilist, unqlist
import c14_translate
from quara.qcircuit import data_generator as dg
from quara.utils.number_util import to_stream

MT = lambda s: np.random.Generator(np.random.MT19937(s))  # noqa: E731  what the property says an int seed means


# ----------------------------------------------------------------------------- translator
def translate(ctx):
    try:
        c14_translate.translate()
    except c14_translate.Untranslatable as e:
        return [f"translator (QGen/C14.lean): {e}"]
    return []


# ----------------------------------------------------------------------------- stub streams for the public entry points
class SpliceGen(np.random.Generator):
    """a genuine MT19937 Generator whose `random(size)` has chosen values (cumulative-sum boundaries, 0.0, +-1 ulp)
    spliced in at every third position of the *stream* (position counted over successive calls), so boundary
    uniforms reach the vectorised public functions. Deterministic: a twin built with the same arguments yields the
    same numbers, which is how the harness knows the uniforms the implementation saw."""

    def __init__(self, seed, values):
        super().__init__(np.random.MT19937(seed))
        self._values = [float(v) for v in values]
        self._drawn = 0

    def random(self, size=None, *a, **kw):
        r = np.atleast_1d(np.asarray(super().random(size, *a, **kw), dtype=np.float64)).copy()
        flat = r.reshape(-1)
        for i in range(flat.size):
            pos = self._drawn + i
            if pos % 3 == 0 and pos // 3 < len(self._values):
                flat[i] = self._values[pos // 3]
        self._drawn += flat.size
        return r if size is not None else float(flat[0])


def zero_state_generator():
    """a genuine Generator(MT19937) in the (legal) all-zero key state: random() returns exactly 0.0"""
    bg = np.random.MT19937(12345)
    st = bg.state
    st["state"]["key"][:] = 0
    bg.state = st
    return np.random.Generator(bg)


def boundary_values(p):
    """0.0, every cumulative sum (as the sequential float sum the loop computes) and its two neighbours, within [0,1)"""
    vals = [0.0]
    for c in np.cumsum(p):
        for u in (c, np.nextafter(c, 0.0), np.nextafter(c, 2.0)):
            if 0.0 <= u < 1.0:
                vals.append(float(u))
    return vals


# ----------------------------------------------------------------------------- generators of inputs
def prob_vectors(ctx, g, n):
    """structured probability vectors: (kind, np.array). Dyadic ones have exact float cumulative sums."""
    out = []
    fixed = [[0.5, 0.0, 0.5], [0.0, 1.0], [1.0, 0.0], [0.0, 0.0, 1.0, 0.0], [0.25, 0.25, 0.5], [0.0, 0.5, 0.0, 0.5, 0.0],
             [2.0 ** -30, 1 - 2.0 ** -30], [1 - 2.0 ** -30, 0.0, 2.0 ** -30], [0.5, 2.0 ** -40, 0.5 - 2.0 ** -40], [1.0]]
    out += [("dyadic-fixed", np.array(p)) for p in fixed]
    # sums slightly below 1 (inside validate_prob_dist's tolerance): the largest double below 1 falls through the loop
    sub = [[0.5, 0.5 - 2.0 ** -50], [0.25, 0.25, 0.5 - 2.0 ** -51], [0.25, 0.75 - 2.0 ** -52, 0.0]]
    out += [("dyadic-subnormalised", np.array(p)) for p in sub]
    # normalised non-dyadic vectors whose FLOAT running sum stays below 1 (passes validate_prob_dist), with exact zeros
    out += [("generic-fixed", np.array(p)) for p in ([0.1] * 10 + [0.0], [0.1] * 10 + [0.0, 0.0], [0.0] + [0.1] * 10,
                                                     [0.3, 0.0, 0.3, 0.3, 0.1, 0.0], [1 / 3, 1 / 3, 1 / 3, 0.0])]
    for t in range(n):
        m = int(g.integers(2, 17))
        w = g.integers(0, 64, size=m).astype(float)
        style = t % 4
        if style == 0:
            w[g.random(m) < 0.4] = 0.0            # exact zeros anywhere
        elif style == 1:
            w[0] = 0.0; w[-1] = 0.0               # leading and trailing zero
        elif style == 2:
            w[int(g.integers(0, m))] = 2.0 ** -20  # tiny entry
        if w.sum() == 0:
            w[int(g.integers(0, m))] = 1.0
        # dyadic normalisation: scale integer weights to a power-of-two total by dumping the remainder on a positive entry
        tot = 2.0 ** np.ceil(np.log2(w.sum())) if style != 2 else None
        if tot is not None:
            k = int(np.flatnonzero(w > 0)[0])
            w[k] += tot - w.sum()
            out.append(("dyadic", w / tot))
        else:
            out.append(("generic-tiny", w / w.sum()))
    for t in range(n // 2):
        m = int(g.integers(2, 17))
        w = g.random(m)
        w[g.random(m) < 0.25] = 0.0
        if w.sum() == 0:
            w[0] = 1.0
        out.append(("generic", w / w.sum()))
    return out


def float_cums(p):
    """the running sums exactly as `_random_number_to_data` computes them (sequential float additions from 0.0)"""
    out, c = [], 0.0
    for x in p:
        c += float(x)
        out.append(c)
    return out


def uniforms_for(kind, p, g, nrand, exact_boundaries=False):
    """uniforms in [0,1): boundaries, neighbours, extremes, random. exact_boundaries=True: the float running sums and their
    two neighbours for EVERY vector, nothing filtered (for comparisons that use the float sums themselves); otherwise
    non-dyadic vectors keep 1e-9 away from the boundaries (the exact-rational model adds exactly, the code in floats)."""
    us = [0.0, float(np.nextafter(1.0, 0.0)), 0.5]
    cs = np.cumsum(p)
    if kind.startswith("dyadic") or exact_boundaries:
        for c in cs:
            for u in (c, np.nextafter(c, 0.0), np.nextafter(c, 2.0)):
                if 0.0 <= u < 1.0:
                    us.append(float(u))
    else:
        for c in cs:
            for u in (c - 1e-7, c + 1e-7):
                if 0.0 <= u < 1.0:
                    us.append(float(u))
    us += [float(x) for x in g.random(nrand)]
    if not kind.startswith("dyadic") and not exact_boundaries:
        us = [u for u in us if np.min(np.abs(cs - u)) > 1e-9 or u in (0.0,)]
        us = [u for u in us if not (u == 0.0 and np.min(np.abs(cs)) < 1e-9)]
    return us


def ref_invert(p, us):
    """independent statement of the inversion: the outcome whose cumulative interval [c_{i-1}, c_i) contains u"""
    cs = np.cumsum(p)
    idx = np.searchsorted(cs, us, side="right")
    # u at or beyond the last running sum (rounding, sub-normalised vector): the last outcome that can occur
    pos = np.flatnonzero(np.asarray(p) > 0)
    last = int(pos[-1]) if len(pos) else len(p) - 1
    return np.where(idx >= len(p), last, idx)


def num_sum_lists(g, L):
    """valid and invalid sample-size lists for data of length L"""
    out = [[], [L], [1], [1, L], list(range(1, L + 1))[:6], [L + 1], [1, L + 1], [2, 2], [3, 2], [0], [0, 2], [2, 0], [-1], [1, 2, 2]]
    for _ in range(6):
        k = int(g.integers(1, 5))
        out.append(sorted(set(int(x) for x in g.integers(1, L + 1, size=k))))
    return [ns for ns in out if all(isinstance(x, int) for x in ns)]


def empi_kind(e):
    m = str(e)
    if "measurement_num must be non-negative" in m:
        return "negativeMeasurementNum"
    if "less than or equal to length of data" in m:
        return "numSumTooLarge"
    if "it must be 0 <= d <" in m:
        return "dataOutOfRange"
    if "increasing sequence" in m:
        return "notIncreasing"
    return type(e).__name__


def empi_impl(m, data, ns):
    try:
        r = dg.calc_empi_dist_sequence(m, data, ns)
        return ("ok", [(int(n), [float(x) for x in e]) for n, e in r])
    except ValueError as e:
        return ("err", empi_kind(e))


def parse_empi(line):
    t = line.split()
    if t[0] == "err":
        return ("err", t[1])
    if t[1] == "~":
        return ("ok", [])
    return ("ok", [(int(x.split(":")[0]), [float(v) for v in unqlist(x.split(":")[1])]) for x in t[1].split(";")])


def same_empi(a, b):
    if a[0] != b[0]:
        return False
    if a[0] == "err":
        return a[1] == b[1]
    return len(a[1]) == len(b[1]) and all(x[0] == y[0] and len(x[1]) == len(y[1]) and np.allclose(x[1], y[1], atol=1e-12, rtol=0)
                                          for x, y in zip(a[1], b[1]))


# ----------------------------------------------------------------------------- correspondence
def correspondence(ctx):
    drv = Driver("C14")
    pend = []
    g = ctx.npgen(1)
    nvec = 160 if ctx.quick else 1500
    vecs = prob_vectors(ctx, g, nvec)
    # (1) _random_number_to_data on structured uniforms
    for kind, p in vecs:
        us = uniforms_for(kind, p, g, 20 if ctx.quick else 40)
        for u in us:
            got = int(dg._random_number_to_data(p, np.float64(u)))
            pend.append(("r2d", (p.tolist(), u), got, drv.ask("r2d", qlist(p), q(u))))
            ctx.case(("r2d", tuple(p), u), nontrivial=True, sample={"op": "r2d", "probs": p.tolist(), "u": u})
        ctx.count(f"prob vectors {kind}")
        ctx.count(f"outcomes {len(p)}")
    # (1b) the same loop on the FLOAT running sums (driver op r2dcs): every vector, boundaries exact, nothing filtered
    for kind, p in vecs:
        cums = float_cums(p)
        for u in uniforms_for(kind, p, g, 6, exact_boundaries=True):
            got = int(dg._random_number_to_data(p, np.float64(u)))
            pend.append(("r2dcs", (p.tolist(), u), got, drv.ask("r2dcs", qlist(p), qlist(cums), q(u))))
            ctx.case(("r2dcs", tuple(p), u), nontrivial=True)
    got = int(dg._random_number_to_data(np.array([]), np.float64(0.3)))
    pend.append(("r2d", ([], 0.3), got, drv.ask("r2d", "-", q(0.3))))
    # (2) generate_data_from_prob_dist: the model is fed the uniforms an MT19937 generator with that seed produces
    seeds = [0, 1, 7, 2 ** 31, 2 ** 32 + 5] + [int(x) for x in g.integers(0, 2 ** 40, size=4 if ctx.quick else 20)]
    for t, (kind, p) in enumerate(vecs):
        seed = seeds[t % len(seeds)]
        n = [0, 1, 17, 200][t % 4]
        got = dg.generate_data_from_prob_dist(p, n, seed)
        us = MT(seed).random(n)
        pend.append(("data", (p.tolist(), n, seed), [int(x) for x in got], drv.ask("data", qlist(p), qlist(us))))
        ctx.case(("data", tuple(p), n, seed), nontrivial=n > 0, sample={"op": "data", "probs": p.tolist(), "n": n, "seed": seed})
    # (2a) the pipeline: data from a seed, then empirical distributions of prefixes of the same data
    for t, (kind, p) in enumerate(vecs[:60 if ctx.quick else 400]):
        if not kind.startswith("dyadic"):
            continue
        seed = seeds[t % len(seeds)]
        n = 40
        data = dg.generate_data_from_prob_dist(p, n, seed)
        us = MT(seed).random(n)
        for ns in ([n], [1, 7, 40], sorted(set(int(x) for x in g.integers(1, n + 1, size=4))), [5, 5], [41]):
            got = empi_impl(len(p), data, ns)
            pend.append(("pipe", (p.tolist(), seed, ns), got, drv.ask("pipe", qlist(p), qlist(us), ilist(ns))))
            ctx.case(("pipe", tuple(p), seed, tuple(ns)), sample={"op": "pipe", "probs": p.tolist(), "seed": seed, "num_sums": ns})
    # (2b) boundary uniforms through the PUBLIC functions: a spliced / zero-state generator is handed in as seed_or_generator
    for t, (kind, p) in enumerate(vecs):
        if not kind.startswith("dyadic"):
            continue        # exact model: only vectors whose float cumulative sums are exact
        vals = boundary_values(p)
        n = 3 * len(vals) + 4
        seed = seeds[t % len(seeds)]
        got = dg.generate_data_from_prob_dist(p, n, SpliceGen(seed, vals))
        us = SpliceGen(seed, vals).random(n)
        pend.append(("data", (p.tolist(), n, ("splice", seed)), [int(x) for x in got], drv.ask("data", qlist(p), qlist(us))))
        ctx.case(("data-splice", tuple(p), n, seed), sample={"op": "data", "probs": p.tolist(), "stream": "MT19937 with boundary uniforms spliced in"})
        ctx.count("public entry points with boundary uniforms")
        if t % 4 == 0:
            got = dg.generate_data_from_prob_dist(p, 5, zero_state_generator())
            pend.append(("data", (p.tolist(), 5, "zero-state"), [int(x) for x in got],
                         drv.ask("data", qlist(p), qlist(zero_state_generator().random(5)))))
            k = 3
            ps = [p, vecs[(t + 1) % len(vecs)][1], p]
            ps = [x if isinstance(x, np.ndarray) else np.array(x) for x in ps]
            if all(kk.startswith("dyadic") for kk in (kind, vecs[(t + 1) % len(vecs)][0])):
                nums = [len(vals), 7, len(vals)]
                allv = boundary_values(p) + boundary_values(ps[1])
                gen = SpliceGen(seed, allv)
                got = dg.generate_dataset_from_prob_dists(ps, nums, [gen] * k)
                tape = SpliceGen(seed, allv).random(sum(nums))
                pend.append(("dataset", (k, nums, ("splice", seed)), [[int(x) for x in d] for d in got],
                             drv.ask("dataset", qlist(tape), "|".join(f"{qlist(pp)}@{nn}" for pp, nn in zip(ps, nums)))))
                ctx.case(("dataset-splice", t, seed))
    # (3) calc_empi_dist_sequence incl. its validation errors
    for t in range(120 if ctx.quick else 1000):
        m = int(g.integers(1, 7))
        L = int(g.integers(1, 40))
        data = [int(x) for x in g.integers(0, m, size=L)]
        variants = [(m, data)]
        if t % 3 == 0:
            bad = list(data); bad[int(g.integers(0, L))] = m
            variants.append((m, bad))
            bad2 = list(data); bad2[int(g.integers(0, L))] = -1
            variants.append((m, bad2))
        if t % 7 == 0:
            variants.append((-1, data)); variants.append((0, [])); variants.append((m, []))
        for mm, dd in variants:
            for ns in num_sum_lists(g, max(len(dd), 1)):
                got = empi_impl(mm, dd, ns)
                pend.append(("empi", (mm, dd, ns), got, drv.ask("empi", mm, ilist(dd), ilist(ns))))
                ctx.case(("empi", mm, tuple(dd), tuple(ns)), nontrivial=bool(ns), sample={"op": "empi", "m": mm, "data": dd[:8], "num_sums": ns})
                ctx.count("empi " + (got[1] if got[0] == "err" else "ok"))
    # (4) one stream shared by all schedules (generate_dataset_from_prob_dists as Experiment.generate_dataset calls it)
    for t in range(80 if ctx.quick else 600):
        k = int(g.integers(1, 5))
        ps = [vecs[int(g.integers(0, len(vecs)))][1] for _ in range(k)]
        nums = [int(x) for x in g.integers(0, 30, size=k)]
        seed = seeds[t % len(seeds)]
        stream = to_stream(seed)
        got = dg.generate_dataset_from_prob_dists(ps, nums, [stream] * k)
        tape = MT(seed).random(sum(nums))
        pend.append(("dataset", (k, nums, seed), [[int(x) for x in d] for d in got],
                     drv.ask("dataset", qlist(tape), "|".join(f"{qlist(p)}@{n}" for p, n in zip(ps, nums)))))
        ctx.case(("dataset", t, seed, tuple(nums)), sample={"op": "dataset", "data_nums": nums, "seed": seed})
    # (4b) LIST of seed arguments (ints, shared generator objects, None): executes genDatasetArgs -> genData -> toStream with
    #      the global state, held generators and fresh int-seeded generators of the model, all on recorded tapes
    dyv = [v for k, v in vecs if k.startswith("dyadic")]
    for t in range(40 if ctx.quick else 300):
        k = int(g.integers(2, 6))
        ps = [dyv[int(g.integers(0, len(dyv)))] for _ in range(k)]
        nums = [int(x) for x in g.integers(0, 25, size=k)]
        s1, s2 = int(g.integers(0, 2 ** 32)), int(g.integers(0, 2 ** 32))
        pat = [[s1] * 5, [s1, s2, s1, s2, s1], [s1, None, s1, None, s2], ["g0", s1, "g0", "g1", "g0"], ["g0"] * 5,
               [None, "g1", None, "g1", s2], [0, 0, 1, 0, 1]][t % 7][:k]
        gens = [MT(s1 + 1), MT(s2 + 1)]
        args = [gens[int(a[1])] if isinstance(a, str) else a for a in pat]
        perturb(s2 % 997, 5)
        got = [[int(x) for x in d] for d in dg.generate_dataset_from_prob_dists(ps, nums, args)]
        perturb(s2 % 997, 5)
        glob_tape = np.random.random(sum(n for n, a in zip(nums, pat) if a is None))
        gen_tapes = [MT(s1 + 1).random(sum(n for n, a in zip(nums, pat) if a == "g0")),
                     MT(s2 + 1).random(sum(n for n, a in zip(nums, pat) if a == "g1"))]
        ints = sorted({a for a in pat if isinstance(a, int)})
        seed_tapes = {a: MT(a).random(max(n for n, b in zip(nums, pat) if b == a)) for a in ints}
        enc_arg = lambda a: "N" if a is None else (f"G{a[1]}" if isinstance(a, str) else f"I{a}")   # noqa: E731
        pend.append(("dsargs", (pat, nums), got,
                     drv.ask("dsargs", qlist(glob_tape), "|".join(qlist(x) for x in gen_tapes),
                             "|".join(f"{a}={qlist(seed_tapes[a])}" for a in ints) or "~",
                             "|".join(f"{enc_arg(a)}@{qlist(pp)}@{n}" for a, pp, n in zip(pat, ps, nums)))))
        ctx.case(("dsargs", t, tuple(str(a) for a in pat), tuple(nums)), sample={"op": "dsargs", "seeds": [str(a) for a in pat], "data_nums": nums})
    # (4c) error branches of generate_data_from_prob_dist (op gde): invalid vectors (negative entry beyond atol, sum off),
    #      tiny negative entries within atol, negative / numpy / bool / float seeds; on an error nothing may be drawn
    from quara.settings import Settings
    atol = Settings.get_atol()
    bad_vecs = [("sum", np.array([0.5, 0.25])), ("sum", np.array([0.5, 0.75])), ("neg", np.array([0.5, -0.125, 0.625])),
                ("neg", np.array([-0.25, 0.5, 0.75])), ("tiny-neg", np.array([0.5, -2.0 ** -50, 0.5 + 2.0 ** -50])),
                ("ok", np.array([0.25, 0.0, 0.75])), ("ok", np.array([0.5, 0.5]))]
    seed_args = [("I5", lambda: 5), ("I0", lambda: 0), ("I-1", lambda: -1), ("I-7", lambda: -7), ("O", lambda: np.int64(3)),
                 ("O", lambda: True), ("O", lambda: 3.0), ("G", lambda: MT(9)), ("N", lambda: None)]
    for (vk, p), (code, mk) in itertools.product(bad_vecs, seed_args):
        n = 6
        arg = mk()
        tape = MT(9).random(n) if code == "G" else (MT(int(code[1:])).random(n) if code[0] == "I" and int(code[1:]) >= 0 else None)
        perturb(4242, 2)
        if code == "N":
            tape = np.random.random(n); perturb(4242, 2)
        pos0 = arg.bit_generator.state["state"]["pos"] if code == "G" else None
        g0 = gstate()
        try:
            d = dg.generate_data_from_prob_dist(p, n, arg)
            got = ("ok", [int(x) for x in d])
        except ValueError as ex:
            m = str(ex)
            got = ("err", "negativeEntry" if "non-negative number" in m else "sumNotOne" if "sum of prob_dist" in m
                   else "negativeSeed" if "non-negative integer" in m else "ValueError:" + m[:40])
        except AttributeError:
            got = ("err", "notAStream")
        drawn = (code == "G" and arg.bit_generator.state["state"]["pos"] != pos0) or (code == "N" and gstate() != g0)
        pend.append(("gde", (vk, p.tolist(), code, repr(arg)[:20]), (got, bool(drawn)),
                     drv.ask("gde", q(atol), code, qlist(tape) if tape is not None else "-", qlist(p), n)))
        ctx.case(("gde", vk, tuple(p), code, repr(arg)[:20]), sample={"op": "gde", "probs": p.tolist(), "seed": repr(arg)[:30]})
        ctx.count(f"generate_data_from_prob_dist outcome {got[1] if got[0] == 'err' else 'ok'}")
    # (4d) reset_seed histories (op rseed): QTomography.reset_seed(arg) / unseeded Experiment.generate_data through the global state
    import qobj
    from quara.protocol.qtomography.standard.standard_qst import StandardQst
    from quara.protocol.qtomography.standard.standard_povmt import StandardPovmt
    gq = ctx.npgen(7)
    cq = qobj.csys("qubit")
    histories = [["D3", "RN", "D4", "D2", "R0", "D3", "RN", "D2"], ["RN", "D2", "R7", "D3", "R7", "D3", "RN", "D1", "R0", "RN", "D2"],
                 ["D1", "R0", "D2", "R0", "D2", "R11", "D2", "RN", "D2"]]
    for which, s0 in (("qst", 5), ("povmt", 0), ("qst", 0)):
        for acts in histories:
            if which == "qst":
                t = StandardQst([qobj.rand_povm(gq, cq, 3), qobj.rand_povm(gq, cq, 2)], seed_data=s0)
                t._experiment.states[0] = qobj.rand_state(gq, cq)
            else:
                t = StandardPovmt([qobj.rand_state(gq, cq), qobj.rand_state(gq, cq)], num_outcomes=3, seed_data=s0)
                t._experiment.povms[0] = qobj.rand_povm(gq, cq, 3)
            probs = np.asarray(t._experiment.calc_prob_dist(0), dtype=float)
            total = sum(int(a[1:]) for a in acts if a[0] == "D")
            rs = np.random.RandomState(); rs.set_state(np.random.get_state())
            glob_tape = rs.random_sample(total)
            used = sorted({s0} | {int(a[1:]) for a in acts if a[0] == "R" and a != "RN"})
            tapes = {sd: np.random.RandomState(sd).random_sample(total) for sd in used}
            got = []
            for a in acts:
                if a == "RN":
                    t.reset_seed()
                elif a[0] == "R":
                    t.reset_seed(int(a[1:]))
                else:
                    got.append([int(x) for x in t._experiment.generate_data(0, int(a[1:]))])
            pend.append(("rseed", (which, s0, acts), got,
                         drv.ask("rseed", s0, "|".join(f"{sd}={qlist(tapes[sd])}" for sd in used), qlist(glob_tape), qlist(probs), ",".join(acts))))
            ctx.case(("rseed", which, s0, tuple(acts)), sample={"op": "rseed", "class": which, "seed_data": s0, "history": acts})
    # (5) generate_empi_dists_sequence_from_prob_dists: multinomial draws consumed schedule-major on one stream
    for t in range(80 if ctx.quick else 600):
        k = int(g.integers(1, 4))
        ps = [vecs[int(g.integers(0, len(vecs)))][1] for _ in range(k)]
        lns = [[int(x) for x in g.integers(1, 200, size=int(g.integers(1, 4)))] for _ in range(k)]
        if t % 2:
            lns = [ns + [ns[0]] for ns in lns]        # a sample size that occurs twice
        seed = seeds[t % len(seeds)]
        got = dg.generate_empi_dists_sequence_from_prob_dists(ps, lns, seed)
        gen = MT(seed)
        tape = [multinomial.rvs(n, p, random_state=gen) for p, ns in zip(ps, lns) for n in ns]
        pend.append(("empis", (k, lns, seed), [("ok", [(int(n), [float(x) for x in e]) for n, e in r]) for r in got],
                     drv.ask("empis", "|".join(ilist(c) for c in tape), "|".join(f"{qlist(p)}@{ilist(ns)}" for p, ns in zip(ps, lns)))))
        ctx.case(("empis", t, seed), sample={"op": "empis", "list_num_sums": lns, "seed": seed})
    out = drv.run()
    for op, inp, impl, i in pend:
        ctx.corr_ops.add(op)
        line = out[i]
        if line in ("bad-op", "tape-short", "no-generator"):
            ok = False
        elif op in ("r2d", "r2dcs"):
            ok = int(line) == impl
        elif op == "data":
            ok = ([] if line == "-" else [int(x) for x in line.split(",")]) == impl
        elif op in ("empi", "pipe"):
            ok = same_empi(impl, parse_empi(line))
        elif op == "gde":
            got, drawn = impl
            t = line.split()
            mdrawn = int(t[-1].split("=")[1]) > 0
            if got[0] == "ok":
                ok = t[0] == "ok" and ([] if t[1] == "-" else [int(x) for x in t[1].split(",")]) == got[1] and \
                    (mdrawn == drawn or inp[2][0] not in "GN")
            else:
                ok = t[0] == "err" and t[1] == got[1] and not mdrawn and not drawn
        elif op == "rseed":
            ok = [[] if d == "-" else [int(x) for x in d.split(",")] for d in line.split("|")] == impl
        elif op == "dsargs":
            body, left = line.rsplit(" ", 1)
            ok = left == "left=0,0,0" and [[] if d == "-" else [int(x) for x in d.split(",")] for d in body.split("|")] == impl
        elif op == "dataset":
            body, left = line.rsplit(" ", 1)
            ok = left == "left=0" and [[] if d == "-" else [int(x) for x in d.split(",")] for d in body.split("|")] == impl
        elif op == "empis":
            parts = line.split("|")
            ok = len(parts) == len(impl) and all(same_empi(a, parse_empi(b)) for a, b in zip(impl, parts))
        if not ok:
            ctx.disagree(op, repr(inp)[:400], repr(impl)[:300], line[:300])


# ----------------------------------------------------------------------------- oracle helpers
def gstate():
    s = np.random.get_state()
    return (s[0], s[1].tobytes(), s[2], s[3], s[4])


def perturb(a, k):
    """unrelated history: reseed the global state and make k unrelated draws of several kinds"""
    np.random.seed(a)
    if k:
        np.random.random(k)
        np.random.randint(0, 10, size=k % 5 + 1)
        np.random.normal(size=k % 3 + 1)


def canon(x):
    """nested lists / tuples / arrays -> hashable nested tuples of python numbers"""
    if isinstance(x, np.ndarray):
        return tuple(canon(v) for v in x.tolist())
    if isinstance(x, (list, tuple)):
        return tuple(canon(v) for v in x)
    if isinstance(x, (np.floating, np.integer)):
        return x.item()
    return x


class Entry:
    """one data-generation entry point: run(seed_or_generator) -> result; ref(generator) -> what the property prescribes
    (draws taken from that generator in the documented order); big = the result is large enough that two independent
    draws coincide with negligible probability"""

    def __init__(self, name, run, ref=None, big=False, run_kw=None):
        self.name, self.run, self.ref, self.big = name, run, ref, big
        self.run_kw = run_kw     # the same call with the seed passed as keyword `seed_or_generator=`
        self.obj, self.seed_data = None, None   # the tomography object behind the entry and the seed_data it was built with


def ref_data(p, n, gen):
    return [int(x) for x in ref_invert(p, gen.random(n))]


def ref_empi_seq(p, ns, gen):
    return [(n, multinomial.rvs(n, p, random_state=gen) / n) for n in ns]


def entries(ctx):
    """data_generator-level, Experiment-level and tomography-level entry points on concrete inputs"""
    import qobj
    from quara.qcircuit.experiment import Experiment
    g = ctx.npgen(5)
    c = qobj.csys("qubit")
    E = []
    p1 = np.array([0.25, 0.0, 0.5, 0.25]); p2 = np.array([0.1, 0.2, 0.3, 0.4, 0.0])
    E.append(Entry("data_generator.generate_data_from_prob_dist", lambda s: dg.generate_data_from_prob_dist(p1, 60, s),
                   lambda gen: ref_data(p1, 60, gen), big=True))
    E.append(Entry("data_generator.generate_empi_dist_sequence_from_prob_dist",
                   lambda s: dg.generate_empi_dist_sequence_from_prob_dist(p2, [10, 100, 10, 1000, 100], s),
                   lambda gen: ref_empi_seq(p2, [10, 100, 10, 1000, 100], gen)))
    E.append(Entry("data_generator.generate_empi_dists_sequence_from_prob_dists",
                   lambda s: dg.generate_empi_dists_sequence_from_prob_dists([p1, p2, p1], [[50, 60, 50], [70, 70], [50, 60]], s),
                   lambda gen: [ref_empi_seq(p, ns, gen) for p, ns in zip([p1, p2, p1], [[50, 60, 50], [70, 70], [50, 60]])]))
    # Experiment: two schedules with the *same* distribution (so a stream that is not shared shows up as identical data)
    st = [qobj.rand_state(g, c)]
    pv = [qobj.rand_povm(g, c, 3), qobj.rand_povm(g, c, 2)]
    gt = [qobj.rand_gate(g, c)]
    mp = [qobj.rand_mprocess(g, c, 2)[0]]
    sch = [[("state", 0), ("povm", 0)], [("state", 0), ("povm", 0)], [("state", 0), ("gate", 0), ("mprocess", 0), ("povm", 1)]]
    ex = Experiment(schedules=sch, states=st, povms=pv, gates=gt, mprocesses=mp)
    pds = ex.calc_prob_dists()
    E.append(Entry("Experiment.generate_data", lambda s: ex.generate_data(2, 80, s), lambda gen: ref_data(pds[2], 80, gen), big=True,
                   run_kw=lambda s: ex.generate_data(2, 80, seed_or_generator=s)))
    E.append(Entry("Experiment.generate_dataset", lambda s: ex.generate_dataset([40, 40, 30], s),
                   lambda gen: [ref_data(p, n, gen) for p, n in zip(pds, [40, 40, 30])], big=True,
                   run_kw=lambda s: ex.generate_dataset([40, 40, 30], seed_or_generator=s)))
    E.append(Entry("Experiment.generate_empi_dist_sequence", lambda s: ex.generate_empi_dist_sequence(0, [20, 200, 20], s),
                   lambda gen: ref_empi_seq(pds[0], [20, 200, 20], gen)))
    E.append(Entry("Experiment.generate_empi_dists_sequence", lambda s: ex.generate_empi_dists_sequence([[30, 30, 30], [300, 300, 300], [30, 30, 30]], s),
                   lambda gen: [ref_empi_seq(p, [30, 300, 30], gen) for p in pds]))
    # tomography classes (testers with different outcome counts where the class allows it)
    from quara.protocol.qtomography.standard.standard_qst import StandardQst
    from quara.protocol.qtomography.standard.standard_povmt import StandardPovmt
    from quara.protocol.qtomography.standard.standard_qpt import StandardQpt
    from quara.protocol.qtomography.standard.standard_qmpt import StandardQmpt
    states = [qobj.rand_state(g, c) for _ in range(3)]
    povms = [qobj.rand_povm(g, c, 2), qobj.rand_povm(g, c, 2), qobj.rand_povm(g, c, 2)]
    trues = {"StandardQst": qobj.rand_state(g, c), "StandardPovmt": qobj.rand_povm(g, c, 3),
             "StandardQpt": qobj.rand_gate(g, c), "StandardQmpt": qobj.rand_mprocess(g, c, 2)[0]}
    # custom NON-identity schedule orders (the schedule index differs from the tester index it refers to)
    custom = {"StandardQst": [[("state", 0), ("povm", k)] for k in (2, 0, 1)],
              "StandardPovmt": [[("state", k), ("povm", 0)] for k in (2, 0, 1)],
              "StandardQpt": [[("state", a), ("gate", 0), ("povm", b)] for a, b in ((1, 0), (0, 2), (1, 1), (0, 0))],
              "StandardQmpt": [[("state", a), ("mprocess", 0), ("povm", b)] for a, b in ((1, 2), (0, 1), (1, 0), (0, 0))]}
    build = {"StandardQst": lambda **kw: StandardQst(povms, **kw),
             "StandardPovmt": lambda **kw: StandardPovmt(states, num_outcomes=3, **kw),
             "StandardQpt": lambda **kw: StandardQpt(states[:2], povms, **kw),
             "StandardQmpt": lambda **kw: StandardQmpt(states[:2], povms, num_outcomes=2, **kw)}

    def born_ref(name, true, schedule):
        """distribution of one schedule from the objects themselves (independent of the tomography object)"""
        L = {"state": [true] if name == "StandardQst" else states, "povm": [true] if name == "StandardPovmt" else povms,
             "gate": [true], "mprocess": [true]}
        branches = [L["state"][schedule[0][1]].vec]
        for k, i in schedule[1:-1]:
            if k == "gate":
                branches = [L["gate"][i].hs @ v for v in branches]
            else:
                branches = [hs @ v for v in branches for hs in L["mprocess"][i].hss]
        pv = L["povm"][schedule[-1][1]]
        p = np.array([np.vdot(e_, v).real for v in branches for e_ in pv.vecs])
        return p

    tomos = {}
    for name in build:
        tomos[name] = build[name]()
        gs = gstate()
        # built WITH seed_data: the constructor reseeds the global state (Experiment.reset_seed_data) ...
        tomos[f"{name}(seed_data=5,custom-order)"] = build[name](seed_data=5, schedules=custom[name])
        tomos[f"{name}(seed_data=9)"] = build[name](seed_data=9)
        np.random.set_state((gs[0], np.frombuffer(gs[1], dtype=np.uint32), gs[2], gs[3], gs[4]))   # ... undo for the harness
    for name, t in tomos.items():
        cls = name.split("(")[0]
        true = trues[cls]
        sched = t._experiment.schedules
        tp = [born_ref(cls, true, sc) for sc in sched]
        own = [np.asarray(x) for x in t.generate_prob_dists_sequence(true)]
        if len(own) != len(tp) or any(a.shape != b.shape or not np.allclose(a, b, atol=1e-9) for a, b in zip(own, tp)):
            ctx.violate(f"C14/{name}/prob-dists-vs-born", "generate_prob_dists_sequence differs from the Born rule on the schedules", {"kind": "purity", "entry": name})
            continue
        tp = own       # bit-identical inputs for the reference multinomial draws; validated against Born just above
        S = len(tp)
        for si in range(S):
            E.append(Entry(f"{name}.generate_empi_dist[schedule {si}]", (lambda t, true, si: lambda s: t.generate_empi_dist(si, true, 500, s))(t, true, si),
                           (lambda tp, si: lambda gen: ref_empi_seq(tp[si], [500], gen)[0])(tp, si),
                           run_kw=(lambda t, true, si: lambda s: t.generate_empi_dist(si, true, 500, seed_or_generator=s))(t, true, si)))
        E.append(Entry(f"{name}.generate_empi_dists", (lambda t, true: lambda s: t.generate_empi_dists(true, 300, s))(t, true),
                       (lambda tp: lambda gen: [ref_empi_seq(p, [300], gen)[0] for p in tp])(tp),
                       run_kw=(lambda t, true: lambda s: t.generate_empi_dists(true, 300, seed_or_generator=s))(t, true)))

        def ref_seq(gen, tp=tp):
            per = [ref_empi_seq(p, [40, 400, 40], gen) for p in tp]          # schedule-major consumption
            return [[per[s][j] for s in range(len(tp))] for j in range(3)]  # returned sample-size-major
        E.append(Entry(f"{name}.generate_empi_dists_sequence", (lambda t, true: lambda s: t.generate_empi_dists_sequence(true, [40, 400, 40], s))(t, true), ref_seq,
                       run_kw=(lambda t, true: lambda s: t.generate_empi_dists_sequence(true, [40, 400, 40], seed_or_generator=s))(t, true)))
        E[-1].obj, E[-1].seed_data = t, t._experiment.seed_data
    return E


def purity(ctx, e, seed, hist, rep):
    """seed purity of one entry point for one seed and two unrelated histories"""
    site = f"C14/{e.name}"
    (a1, k1), (a2, k2) = hist
    try:
        perturb(a1, k1); before = gstate(); r1 = canon(e.run(seed)); after = gstate()
        perturb(a2, k2); r2 = canon(e.run(seed))
        r3 = canon(e.run(MT(seed)))
        gen = MT(seed); perturb(a1, k2); before_g = gstate(); r4 = canon(e.run(gen)); r5 = canon(e.run(gen)); after_g = gstate()
        perturb(a1, k1); r6 = canon(e.run(None)); r7 = canon(e.run(None))
        perturb(a1, k1); r8 = canon(e.run(None))
        perturb(a2, k1); r9 = canon(e.run(None))
    except Exception as ex:  # noqa
        ctx.violate(f"{site}/raises", f"{type(ex).__name__}: {ex}", rep)
        return
    if e.run_kw is not None:
        try:
            rk = canon(e.run_kw(seed)); rkn = None
            perturb(a1, k1); rkn = canon(e.run_kw(None))
        except Exception as ex:  # noqa
            ctx.violate(f"{site}/keyword-seed/raises", f"seed passed as keyword seed_or_generator=: {type(ex).__name__}: {ex}", rep)
        else:
            if rk != r1 or rkn != r6:
                ctx.violate(f"{site}/keyword-seed/differs", "passing the seed by keyword gives a different result than passing it positionally", rep)
    if r1 != r2:
        ctx.violate(f"{site}/int-seed/depends-on-history", f"seed {seed}: result differs after global histories {hist}", rep)
    if before != after:
        ctx.violate(f"{site}/int-seed/touches-global-state", f"seed {seed}: numpy's global state changed during a call with an integer seed", rep)
    if r3 != r1:
        ctx.violate(f"{site}/int-seed/not-fresh-MT19937", f"seed {seed}: result differs from passing Generator(MT19937(seed))", rep)
    if r4 != r1:
        ctx.violate(f"{site}/generator/first-call", f"seed {seed}: first call on a fresh generator differs from the integer-seed result", rep)
    if e.big and r5 == r4:
        ctx.violate(f"{site}/generator/does-not-advance", f"seed {seed}: two successive calls on one generator return identical results", rep)
    if before_g != after_g:
        ctx.violate(f"{site}/generator/touches-global-state", f"seed {seed}: global state changed during calls with a generator", rep)
    if r6 != r8:
        ctx.violate(f"{site}/global/not-determined-by-global-state", "same global state, different results", rep)
    if e.big and (r6 == r7 or r6 == r9):
        ctx.violate(f"{site}/global/does-not-use-global-state", "results do not follow the global state (no advance / no dependence on np.random.seed)", rep)
    if e.ref is not None:
        gen = MT(seed)
        want = [canon(e.ref(gen)), canon(e.ref(gen))]
        if [r4, r5] != want:
            which = "first" if r4 != want[0] else "second"
            ctx.violate(f"{site}/stream-discipline", f"seed {seed}: {which} call on one generator does not consume the stream as prescribed "
                                                       "(int seed = Generator(MT19937(seed)); schedules in order; sample sizes in order)", rep)
        perturb(a1, k1)
        want = [canon(e.ref(np.random)), canon(e.ref(np.random))]
        if [r6, r7] != want:
            ctx.violate(f"{site}/global/stream-discipline", "with seed_or_generator=None the results are not the successive draws from numpy's global state", rep)


def check_valid(ctx, name, p, data, rep):
    data = np.asarray(data)
    if data.size and (data.min() < 0 or data.max() >= len(p)):
        ctx.violate(f"C14/{name}/out-of-range", f"outcome outside 0..{len(p)-1}", rep)
    elif data.size and np.any(np.asarray(p)[data] <= 0):
        ctx.violate(f"C14/{name}/zero-probability-outcome", f"data contain outcome(s) {sorted(set(data[np.asarray(p)[data] <= 0].tolist()))} of probability 0", rep)


def public_boundary(ctx, entry, run, jobs, mk, rep, flat=False):
    """run(gen) on a stub stream; jobs = [(probs, n), ...] consumed in order from the twin stream mk(); every datum must be
    the outcome whose cumulative interval [c_{i-1}, c_i) contains its uniform, hence of non-zero probability when u < sum"""
    try:
        got = run(mk())
    except Exception as ex:  # noqa
        ctx.violate(f"C14/{entry}/boundary-uniforms/raises", f"{type(ex).__name__}: {ex}", rep)
        return
    got = [got] if flat else list(got)
    twin = mk()
    for (p, n), data in zip(jobs, got):
        us = np.atleast_1d(twin.random(n)) if n else np.array([])
        data = [int(x) for x in data]
        tot = float(np.cumsum(p)[-1])
        want = [int(x) for x in ref_invert(p, us)] if n else []
        if len(data) != n:
            ctx.violate(f"C14/{entry}/boundary-uniforms/length", f"{len(data)} data for {n}", rep); return
        for u, d, w in zip(us, data, want):
            if not (0 <= d < len(p)):
                ctx.violate(f"C14/{entry}/boundary-uniforms/out-of-range", f"u={float(u)!r} -> {d} for {len(p)} outcomes", rep); return
            if p[d] <= 0:
                sig = "zero-probability-outcome" if u < tot else "zero-probability-outcome/fall-through"
                ctx.violate(f"C14/{entry}/boundary-uniforms/{sig}",
                            f"u={float(u)!r} -> outcome {d} of probability 0 (probs {np.asarray(p).tolist()}, float sum {tot!r})", rep)
                if u < tot:
                    return
                continue
            if d != w:
                ctx.violate(f"C14/{entry}/boundary-uniforms/wrong-interval",
                            f"u={float(u)!r} -> {d}, but u lies in the cumulative interval of outcome {w} (probs {np.asarray(p).tolist()})", rep); return


def experiment_boundary(ctx, seeds):
    """Experiment.generate_data / generate_dataset with distributions that have exact zeros (computational-basis states
    measured in the z basis, in both orders) and boundary uniforms"""
    import qobj
    from quara.qcircuit.experiment import Experiment
    from quara.objects.state import State
    from quara.objects.povm import Povm
    c = qobj.csys("qubit")
    P0 = np.array([[1, 0], [0, 0]], dtype=complex); P1 = np.array([[0, 0], [0, 1]], dtype=complex)
    Z3 = np.zeros((2, 2), dtype=complex)
    st = [State(c, qobj.vec_of(c, P1)), State(c, qobj.vec_of(c, P0))]
    pv = [Povm(c, [qobj.vec_of(c, P0), qobj.vec_of(c, P1)]), Povm(c, [qobj.vec_of(c, Z3), qobj.vec_of(c, P0), qobj.vec_of(c, P1)], is_physicality_required=False)]
    sch = [[("state", 0), ("povm", 0)], [("state", 1), ("povm", 0)], [("state", 0), ("povm", 1)], [("state", 1), ("povm", 1)]]
    try:
        ex = Experiment(schedules=sch, states=st, povms=pv)
        pds = [np.asarray(x, dtype=float) for x in ex.calc_prob_dists()]
    except Exception as e:  # noqa
        ctx.violate("C14/Experiment/boundary-uniforms/setup-raises", f"{type(e).__name__}: {e}", {"kind": "public-boundary", "entry": "Experiment"}); return
    ctx.count("Experiment distributions with exact zeros", sum(1 for p in pds if np.any(p == 0)))
    for i, p in enumerate(pds):
        vals = boundary_values(p)
        seed = seeds[i % len(seeds)]
        n = 3 * len(vals) + 2
        for sname, mk, nn in (("spliced", lambda: SpliceGen(seed, vals), n), ("zero-state", zero_state_generator, 3)):
            rep = {"kind": "public-boundary", "entry": "Experiment.generate_data", "schedule": i, "probs": p.tolist(), "stream": sname, "seed": seed}
            public_boundary(ctx, "Experiment.generate_data", lambda gen: ex.generate_data(i, nn, gen), [(p, nn)], mk, rep, flat=True)
            ctx.case(("o-exp-boundary", i, sname))
    allv = [v for p in pds for v in boundary_values(p)]
    nums = [7, 8, 9, 10]
    rep = {"kind": "public-boundary", "entry": "Experiment.generate_dataset", "probs": [p.tolist() for p in pds], "stream": "spliced", "seed": seeds[0]}
    public_boundary(ctx, "Experiment.generate_dataset", lambda gen: ex.generate_dataset(nums, gen), list(zip(pds, nums)),
                    lambda: SpliceGen(seeds[0], allv), rep)
    public_boundary(ctx, "Experiment.generate_dataset", lambda gen: ex.generate_dataset([2, 2, 2, 2], gen), list(zip(pds, [2, 2, 2, 2])),
                    zero_state_generator, dict(rep, stream="zero-state"))


# ----------------------------------------------------------------------------- oracle
def oracle(ctx, volume=1):
    ctx.notes = ["that MT19937 / scipy.stats.multinomial sample the stated distribution is trusted; the 7-sigma frequency check in the oracle is a test, not a proof",
                 "float rounding of the running cumulative sum: the exact-rational theorems (r2d_interval, r2d_pos, data_valid) do not transfer to floats; "
                 "r2d_pos_any_add / data_valid do (any addition with add c 0 = c; hit => positive entry, fall-through => last positive entry). "
                 "Former defect D19 (zero-probability outcome after a rounding fall-through, p=[0.1]*10+[0.0], u=nextafter(1,0)) was repaired in 007afc6; "
                 "its oracle signatures (.../zero-probability-outcome/fall-through) stay live; the correspondence runs the loop on the implementation's float running "
                 "sums for every vector (op r2dcs, boundaries exact) and the exact model on dyadic vectors",
                 "multinomial path: genEmpiSeq_valid holds under the trusted contract MultiOK of scipy's multinomial.rvs; no cumulative consistency there; the "
                 "tomography layer is skeleton-matched + reference-stream oracle only",
                 "seed arguments: Python int >= 0, Generator, None; anything else is handed on and fails (seed_other_rejected); invalid probability vectors raise "
                 "before any draw in Python - the seed theorems are about valid vectors",
                 "generate_empi_dist_sequence_from_prob_dist draws an independent multinomial sample per sample size (not cumulative); cumulative consistency "
                 "is claimed and checked for calc_empi_dist_sequence only",
                 "calc_empi_dist_sequence silently returns [] when the first sample size is <= 0 (mirrored by the model: theorem empi_first_size_nonpositive; excluded by hypothesis in empi_counts / empi_ok_iff)"]
    g = ctx.npgen(2)
    vecs = prob_vectors(ctx, g, (120 if ctx.quick else 1000) * volume)
    # (a) inversion: range, non-zero probability, the interval [c_{i-1}, c_i)
    for kind, p in vecs:
        us = uniforms_for(kind, p, g, 20, exact_boundaries=True)
        tot = float_cums(p)[-1]
        for u in us:
            rep = {"kind": "r2d", "probs": p.tolist(), "u": u}
            try:
                r = int(dg._random_number_to_data(p, np.float64(u)))
            except Exception as ex:  # noqa
                ctx.violate("C14/_random_number_to_data/raises", f"{type(ex).__name__}: {ex}", rep); break
            ctx.case(("o-r2d", tuple(p), u))
            if not (0 <= r < len(p)):
                ctx.violate("C14/_random_number_to_data/out-of-range", f"returns {r} for {len(p)} outcomes", rep); break
            if p[r] <= 0:
                # a hit on a zero entry is never excusable; the fall-through (u not below the last FLOAT running sum) is D19
                sig = "zero-probability-outcome" if u < tot else "zero-probability-outcome/fall-through"
                ctx.violate(f"C14/_random_number_to_data/{sig}", f"u={u!r} -> outcome {r} with probability 0 (probs {p.tolist()}, float sum {tot!r})", rep)
                if u < tot:
                    break
                continue
            if r != int(ref_invert(p, [u])[0]):
                ctx.violate("C14/_random_number_to_data/wrong-interval", f"u={u!r} -> {r}, but u lies in the cumulative interval of outcome {int(ref_invert(p, [u])[0])}", rep); break
    # (b) generated data: valid, and exactly the inversion of the seed's uniform stream
    seeds = [0, 1, 7, 2 ** 31, 2 ** 32 + 5] + [int(x) for x in g.integers(0, 2 ** 40, size=6)]
    for t, (kind, p) in enumerate(vecs):
        seed = seeds[t % len(seeds)]
        n = 300
        rep = {"kind": "data", "probs": p.tolist(), "n": n, "seed": seed}
        try:
            d = dg.generate_data_from_prob_dist(p, n, seed)
        except Exception as ex:  # noqa
            ctx.violate("C14/generate_data_from_prob_dist/raises", f"{type(ex).__name__}: {ex}", rep); continue
        ctx.case(("o-data", tuple(p), seed))
        check_valid(ctx, "generate_data_from_prob_dist", p, d, rep)
        if len(d) != n:
            ctx.violate("C14/generate_data_from_prob_dist/length", f"{len(d)} data for data_num={n}", rep)
        elif kind.startswith("dyadic") and [int(x) for x in d] != ref_data(p, n, MT(seed)):
            ctx.violate("C14/generate_data_from_prob_dist/not-inversion-of-seed-stream", "data differ from inverting Generator(MT19937(seed)).random(n)", rep)
        es = dg.generate_empi_dist_sequence_from_prob_dist(p, [5, 50], seed)
        for n2, e in es:
            if np.any(e < 0) or abs(e.sum() - 1) > 1e-12 or np.any(np.abs(e * n2 - np.round(e * n2)) > 1e-9) or np.any(e[p <= 0] > 0):
                ctx.violate("C14/generate_empi_dist_sequence_from_prob_dist/not-counts-over-n", f"n={n2}: {e.tolist()} for probs {p.tolist()}", rep)
    # (b2) boundary uniforms through the public (vectorised) entry points: stub streams handed in as seed_or_generator
    fixed_lead = [np.array(x) for x in ([0.0, 1.0], [0.0, 0.5, 0.5], [0.0, 0.0, 1.0], [0.0, 0.2, 0.3, 0.5], [0.25, 0.0, 0.0, 0.75],
                                        [1e-300, 0.0, 1.0], [0.0] * 3 + [0.125] * 8 + [0.0] * 5)]
    for t, p in enumerate(fixed_lead + [v for _, v in vecs]):
        vals = boundary_values(p)
        n = 3 * len(vals) + 4
        seed = seeds[t % len(seeds)]
        streams = [("spliced", lambda: SpliceGen(seed, vals), n)]
        if t % 3 == 0:
            streams.append(("zero-state", zero_state_generator, 4))
        for sname, mk, nn in streams:
            rep = {"kind": "public-boundary", "entry": "generate_data_from_prob_dist", "probs": p.tolist(), "stream": sname, "seed": seed, "n": nn}
            public_boundary(ctx, "generate_data_from_prob_dist", lambda gen: dg.generate_data_from_prob_dist(p, nn, gen), [(p, nn)], mk, rep, flat=True)
        ctx.case(("o-public-boundary", tuple(p), seed))
        if t % 5 == 0:
            q2 = fixed_lead[t % len(fixed_lead)]
            jobs = [(p, len(vals)), (q2, 9), (p, 5)]
            allv = vals + boundary_values(q2)
            rep = {"kind": "public-boundary", "entry": "generate_dataset_from_prob_dists", "probs": [x.tolist() for x, _ in jobs],
                   "nums": [k for _, k in jobs], "stream": "spliced", "seed": seed}
            public_boundary(ctx, "generate_dataset_from_prob_dists",
                            lambda gen: dg.generate_dataset_from_prob_dists([x for x, _ in jobs], [k for _, k in jobs], [gen] * 3),
                            jobs, lambda: SpliceGen(seed, allv), rep)
    experiment_boundary(ctx, seeds)
    # (b3) argument buffers re-used between consecutive calls (contents changed in place): the result may depend on the
    #      current contents only
    for t, (kind, p) in enumerate(vecs):
        if len(p) < 2 or t % 2:
            continue
        seed = seeds[t % len(seeds)]
        q2 = np.roll(p, 1)
        if np.array_equal(q2, p):
            continue
        rep = {"kind": "reused-buffer", "probs": p.tolist(), "then": q2.tolist(), "seed": seed}
        ctx.case(("o-reused-buffer", tuple(p), seed))
        try:
            for entry, run, ref in (
                ("generate_data_from_prob_dist", lambda b: [int(x) for x in dg.generate_data_from_prob_dist(b, 120, seed)],
                 lambda v: [int(x) for x in dg.generate_data_from_prob_dist(np.array(v), 120, seed)]),
                ("_random_number_to_data", lambda b: [int(dg._random_number_to_data(b, np.float64(u))) for u in (0.0, 0.3, 0.77, 0.999)],
                 lambda v: [int(x) for x in ref_invert(np.array(v), [0.0, 0.3, 0.77, 0.999])]),
                ("generate_dataset_from_prob_dists", lambda b: canon(dg.generate_dataset_from_prob_dists([b, b], [40, 40], [seed, seed + 1])),
                 lambda v: canon(dg.generate_dataset_from_prob_dists([np.array(v), np.array(v)], [40, 40], [seed, seed + 1]))),
                ("generate_empi_dist_sequence_from_prob_dist", lambda b: canon(dg.generate_empi_dist_sequence_from_prob_dist(b, [50, 500], seed)),
                 lambda v: canon(dg.generate_empi_dist_sequence_from_prob_dist(np.array(v), [50, 500], seed))),
            ):
                buf = np.array(p)           # one work buffer, re-used
                first = run(buf)
                buf[:] = q2                 # contents replaced in place
                second = run(buf)
                want1, want2 = ref(p.tolist()), ref(q2.tolist())   # fresh arrays
                if first != want1 or second != want2:
                    ctx.violate(f"C14/{entry}/reused-buffer/depends-on-earlier-call",
                                f"second call on the same array object (contents now {q2.tolist()}) differs from a call on a fresh array", rep)
                elif entry == "generate_data_from_prob_dist":
                    check_valid(ctx, "generate_data_from_prob_dist/reused-buffer", q2, second, rep)
        except Exception as ex:  # noqa
            ctx.violate("C14/reused-buffer/raises", f"{type(ex).__name__}: {ex}", rep)
    # (b4) list-valued seeds of generate_dataset_from_prob_dists: repeated ints, shared generator objects, None - entry i is
    #      generate_data_from_prob_dist(prob_dists[i], data_nums[i], seeds[i]) evaluated in order
    r = ctx.rng
    dy = [v for k, v in vecs if k.startswith("dyadic")]
    for t in range(12 * volume):
        k = r.randint(2, 5)
        ps = [dy[r.randrange(len(dy))] for _ in range(k)]
        if t % 3 == 0:
            ps = [ps[0]] * k
        nums = [r.randint(0, 40) for _ in range(k)] if t % 2 else [25] * k
        s1, s2 = r.randrange(2 ** 32), r.randrange(2 ** 32)
        patterns = [[s1] * k, [s1, s2] * k, [s1, None, s1, None, s2], ["g1", s1, "g1", "g2", "g1"], ["g1", "g1", "g1", "g1", "g1"], [0, 0, 1, 0, 1]]
        pat = patterns[t % len(patterns)][:k]

        def mkargs():
            gens = {"g1": MT(s1), "g2": MT(s2)}
            return [gens[x] if isinstance(x, str) else x for x in pat]
        rep = {"kind": "dataset-seeds", "probs": [x.tolist() for x in ps], "nums": nums, "seeds": [str(x) for x in pat], "s": [s1, s2]}
        ctx.case(("o-dataset-seeds", t, tuple(nums), tuple(str(x) for x in pat)))
        try:
            perturb(s2 % 1000, 7)
            got = [[int(x) for x in d] for d in dg.generate_dataset_from_prob_dists(ps, nums, mkargs())]
            perturb(s2 % 1000, 7)
            want = [ref_data(pp, n, np.random if a is None else (MT(a) if isinstance(a, int) else a)) for pp, n, a in zip(ps, nums, mkargs())]
        except Exception as ex:  # noqa
            ctx.violate("C14/generate_dataset_from_prob_dists/seed-list/raises", f"{type(ex).__name__}: {ex}", rep); continue
        if got != want:
            bad = next(i for i in range(k) if got[i] != want[i])
            ctx.violate("C14/generate_dataset_from_prob_dists/seed-list/entry-not-its-own-seed",
                        f"entry {bad} (seed {pat[bad]!r}) is not generate_data_from_prob_dist(prob_dists[{bad}], {nums[bad]}, seeds[{bad}]); seeds {pat}", rep)
    # (b5) MultinomialDistribution.execute_random_sampling: one object sampled repeatedly with different num / size / streams
    from quara.objects.multinomial_distribution import MultinomialDistribution
    for t, p in enumerate(dy[:10]):
        if len(p) < 2:
            continue
        md = MultinomialDistribution(np.array(p), shape=(len(p),))
        pm = np.array(md.ps)
        gen, twin = MT(5 + t), MT(5 + t)
        calls = [(100, 2, 11), (1000, 1, 11), (10, 3, gen), (500, 2, gen), (100, 2, 11), (7, 1, None), (70, 2, None)]
        rep = {"kind": "execute_random_sampling", "probs": p.tolist(), "calls": [(a, b, str(c)) for a, b, c in calls]}
        ctx.case(("o-exec-sampling", tuple(p)))
        perturb(99 + t, 3)
        try:
            got = [canon(md.execute_random_sampling(num, size, sg)) for num, size, sg in calls]
        except Exception as ex:  # noqa
            ctx.violate("C14/MultinomialDistribution.execute_random_sampling/raises", f"{type(ex).__name__}: {ex}", rep); continue
        perturb(99 + t, 3)
        want = [canon(list(multinomial.rvs(num, pm, size=size, random_state=(np.random if sg is None else (MT(sg) if isinstance(sg, int) else twin)))))
                for num, size, sg in calls]
        for (num, size, sg), a, b in zip(calls, got, want):
            if len(a) != size or any(sum(row) != num or min(row) < 0 or any(c > 0 and pm[i] <= 0 for i, c in enumerate(row)) for row in a):
                ctx.violate("C14/MultinomialDistribution.execute_random_sampling/not-counts-of-num",
                            f"call (num={num}, size={size}) on a re-used object returns {a}", rep); break
            if a != b:
                ctx.violate("C14/MultinomialDistribution.execute_random_sampling/stream-discipline",
                            f"call (num={num}, size={size}, {sg}) differs from multinomial.rvs on the prescribed stream", rep); break
    # (c) calc_empi_dist_sequence = counts of the requested prefix / n; cumulative consistency; validation
    for t in range((150 if ctx.quick else 1500) * volume):
        m = int(g.integers(1, 9))
        L = int(g.integers(1, 60))
        data = [int(x) for x in g.integers(0, m, size=L)]
        for ns in num_sum_lists(g, L):
            rep = {"kind": "empi", "m": m, "data": data, "num_sums": ns}
            valid = all(1 <= x <= L for x in ns) and all(a < b for a, b in zip(ns, ns[1:]))
            got = empi_impl(m, data, ns)
            ctx.case(("o-empi", m, tuple(data), tuple(ns)), nontrivial=bool(ns))
            if valid:
                if got[0] != "ok":
                    ctx.violate("C14/calc_empi_dist_sequence/rejects-valid", f"{got}", rep); continue
                if [n for n, _ in got[1]] != ns:
                    ctx.violate("C14/calc_empi_dist_sequence/sample-sizes", f"returned sizes {[n for n, _ in got[1]]} for {ns}", rep); continue
                prev_n, prev_c = 0, np.zeros(m)
                for n, e in got[1]:
                    e = np.array(e)
                    want = np.bincount(data[:n], minlength=m)
                    if e.shape != (m,) or not np.allclose(e * n, want, atol=1e-9, rtol=0) or abs(e.sum() - 1) > 1e-12 or np.any(e < 0):
                        ctx.violate("C14/calc_empi_dist_sequence/not-prefix-counts", f"n={n}: {e.tolist()} but counts of data[:n] are {want.tolist()}", rep); break
                    inc = e * n - prev_c
                    if not np.allclose(inc, np.bincount(data[prev_n:n], minlength=m), atol=1e-9, rtol=0):
                        ctx.violate("C14/calc_empi_dist_sequence/cumulative-inconsistent", f"n={n}", rep); break
                    prev_n, prev_c = n, e * n
            else:
                first_bad = ns and ns[0] <= 0
                if got[0] == "ok" and not (first_bad and got[1] == []):
                    ctx.violate("C14/calc_empi_dist_sequence/accepts-invalid-sample-sizes", f"num_sums {ns} (len(data)={L}) accepted: {got[1]}", rep)
        for bad_m, bad_data, why in ((-1, data, "negative-measurement-num"), (m, data[:3] + [m] + data[3:], "data-out-of-range"),
                                     (m, [-1] + data, "data-out-of-range")):
            got = empi_impl(bad_m, bad_data, [len(bad_data)])
            if got[0] == "ok":
                ctx.violate(f"C14/calc_empi_dist_sequence/accepts-{why}", f"m={bad_m} data={bad_data[:6]}...", {"kind": "empi", "m": bad_m, "data": bad_data, "num_sums": [len(bad_data)]})
    # (d) seed purity / stream discipline of every entry point
    E = entries(ctx)
    r = ctx.rng
    nseed = (4 if ctx.quick else 16) * volume
    for e in E:
        for seed in [0, 12345][:nseed] + [r.randrange(2 ** 32) for _ in range(max(0, nseed - 2))]:
            hist = ((r.randrange(2 ** 31), r.randrange(0, 50)), (r.randrange(2 ** 31), r.randrange(50, 200)))
            purity(ctx, e, seed, hist, {"kind": "purity", "entry": e.name, "seed": seed, "hist": hist})
            ctx.case(("o-purity", e.name, seed, hist), sample={"op": "purity", "entry": e.name, "seed": seed, "histories": hist})
            ctx.count("purity " + e.name.split(".")[0])
    # QTomography.reset_seed: replay of unseeded generation through the global state (objects built WITH seed_data)
    for e in E:
        if e.obj is None or e.seed_data is None or e.ref is None:
            continue
        t, s0 = e.obj, e.seed_data
        rep = {"kind": "reset-seed", "entry": e.name, "seed_data": s0}
        ctx.case(("o-reset-seed", e.name))
        site = f"C14/{e.name.split('.')[0]}.reset_seed"

        def want(seed_value, calls=1):
            np.random.seed(seed_value)
            return [canon(e.ref(np.random)) for _ in range(calls)]
        try:
            perturb(31337, 11); t.reset_seed(); a = [canon(e.run(None)), canon(e.run(None))]
            np.random.random(17); t.reset_seed(); b = canon(e.run(None))
            perturb(4, 3); t.reset_seed(s0); c2 = canon(e.run(None))
            s1 = s0 + 12345
            perturb(5, 1); t.reset_seed(s1); d = canon(e.run(None)); held = t._experiment.seed_data
            np.random.random(3); t.reset_seed(); d2 = canon(e.run(None))
            # the seed 0 is a seed like any other (not "no seed"): on an object holding a non-zero seed, then on one holding 0
            perturb(6, 2); t.reset_seed(0); z1 = canon(e.run(None)); held0 = t._experiment.seed_data
            np.random.random(5); t.reset_seed(0); z2 = canon(e.run(None))
            np.random.random(5); t.reset_seed(); z3 = canon(e.run(None))
            t.reset_seed(s0)            # restore
        except Exception as ex:  # noqa
            ctx.violate(f"{site}/raises", f"{type(ex).__name__}: {ex}", rep); continue
        w0 = want(s0, 2)
        if a != w0:
            ctx.violate(f"{site}/no-arg/not-a-replay", f"after reset_seed() unseeded generation is not the stream of np.random.seed({s0})", rep)
        elif b != w0[0]:
            ctx.violate(f"{site}/no-arg/second-reset-does-not-rewind", "reset_seed() after earlier draws does not rewind the global state to the seed", rep)
        if c2 != w0[0]:
            ctx.violate(f"{site}/same-seed/does-not-rewind", f"reset_seed({s0}) (the seed the object already holds) does not rewind the global state", rep)
        if d != want(s1)[0] or held != s1:
            ctx.violate(f"{site}/new-seed", f"reset_seed({s1}) does not re-seed with the new seed (seed_data now {held})", rep)
        elif d2 != want(s1)[0]:
            ctx.violate(f"{site}/no-arg/after-new-seed", "reset_seed() does not replay the seed set by the previous reset_seed(seed)", rep)
        wz = want(0)[0]
        if z1 != wz or held0 != 0:
            ctx.violate(f"{site}/seed-0-ignored", f"reset_seed(0) on an object holding seed {s1} does not re-seed with 0 (seed_data now {held0}; "
                                                  f"data are{'' if z1 == want(s1)[0] else ' not'} the stream of the old seed)", rep)
        elif z2 != wz or z3 != wz:
            ctx.violate(f"{site}/seed-0-held", "on an object holding seed 0, reset_seed(0) / reset_seed() does not rewind to np.random.seed(0)", rep)
    # to_stream itself
    gen = MT(3)
    if to_stream(None) is not np.random or to_stream(gen) is not gen or not isinstance(to_stream(3), np.random.Generator) \
            or to_stream(3).random(5).tolist() != MT(3).random(5).tolist() or to_stream(3) is to_stream(3):
        ctx.violate("C14/to_stream/contract", "None -> np.random, int -> fresh Generator(MT19937(seed)), generator -> itself", {"kind": "to_stream"})
    # Experiment.reset_seed_data reseeds the global state: constructor with seed_data=s then unseeded generation is reproducible
    try:
        from quara.qcircuit.experiment import Experiment
        import qobj
        gg = ctx.npgen(6)
        c = qobj.csys("qubit")
        kw = dict(schedules=[[("state", 0), ("povm", 0)]], states=[qobj.rand_state(gg, c)], povms=[qobj.rand_povm(gg, c, 3)])
        perturb(11, 3); a = Experiment(seed_data=77, **kw).generate_data(0, 50)
        perturb(12, 9); b = Experiment(seed_data=77, **kw).generate_data(0, 50)
        ex = Experiment(seed_data=77, **kw); ex.generate_data(0, 5); ex.reset_seed_data(77); c2 = ex.generate_data(0, 50)
        if a != b or a != c2:
            ctx.violate("C14/Experiment.reset_seed_data/not-reproducible", "seed_data / reset_seed_data followed by unseeded generation differs between runs", {"kind": "reset_seed"})
    except Exception as ex_:  # noqa
        ctx.violate("C14/Experiment.reset_seed_data/raises", f"{type(ex_).__name__}: {ex_}", {"kind": "reset_seed"})
    # (e) frequency test (labelled a test): fixed bound 7 sigma + 1 per outcome, both sampling paths
    N = (40000 if ctx.quick else 400000)
    for kind, p in vecs[:6] + vecs[10:14]:
        seed = 2024 + len(p)
        rep = {"kind": "freq", "probs": p.tolist(), "N": N, "seed": seed}
        c1 = np.bincount(np.asarray(dg.generate_data_from_prob_dist(p, N, seed), dtype=int), minlength=len(p))
        c2 = np.round(dg.generate_empi_dist_sequence_from_prob_dist(p, [N], seed)[0][1] * N)
        bound = 7 * np.sqrt(N * p * (1 - p)) + 1
        ctx.case(("o-freq", tuple(p)))
        if np.any(np.abs(c1 - N * p) > bound):
            ctx.violate("C14/generate_data_from_prob_dist/frequencies", f"counts {c1.tolist()} vs N*p {(N * p).tolist()}", rep)
        if np.any(np.abs(c2 - N * p) > bound):
            ctx.violate("C14/generate_empi_dist_sequence_from_prob_dist/frequencies", f"counts {c2.tolist()} vs N*p {(N * p).tolist()}", rep)


def search(ctx):
    oracle(ctx, volume=4)


def replay(ctx, data):
    r = data["replay"]
    print("replaying", r)
    if r["kind"] == "r2d":
        p, u = np.array(r["probs"]), np.float64(r["u"])
        got = int(dg._random_number_to_data(p, u)); want = int(ref_invert(p, [u])[0])
        print("implementation:", got, "| interval containing u:", want, "| cumulative sums:", np.cumsum(p).tolist())
        return 0 if (got == want and 0 <= got < len(p) and (p[got] > 0 or u >= np.cumsum(p)[-1])) else 1
    if r["kind"] == "empi":
        got = empi_impl(r["m"], r["data"], r["num_sums"])
        print("implementation:", got)
        print("prefix counts:", [(n, np.bincount(r["data"][:n], minlength=max(r["m"], 0)).tolist()) for n in r["num_sums"] if 0 < n <= len(r["data"])])
    if r["kind"] == "public-boundary" and r.get("entry") == "generate_data_from_prob_dist":
        p = np.array(r["probs"]); vals = boundary_values(p)
        mk = (lambda: SpliceGen(r["seed"], vals)) if r["stream"] == "spliced" else zero_state_generator
        us = np.atleast_1d(mk().random(r["n"]))
        got = [int(x) for x in dg.generate_data_from_prob_dist(p, r["n"], mk())]
        want = [int(x) for x in ref_invert(p, us)]
        bad = [(float(u), d, w) for u, d, w in zip(us, got, want) if d != w or (u < np.cumsum(p)[-1] and p[d] <= 0)]
        print("probs", p.tolist(), "| stream:", r["stream"], "| (uniform, outcome, outcome of the interval containing it) that differ:", bad[:5])
        return 1 if bad else 0
    before = len(ctx.violations)
    oracle(ctx)
    sig = data.get("signature")
    hit = [v for v in ctx.violations[before:] if v["signature"] == sig]
    for v in hit[:3]:
        print(v["signature"], v["what"])
    return 1 if hit else 0
